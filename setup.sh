#!/bin/bash
# Offline set-up: nothing to build (pure Python on /venv).  Verifies the Python
# dependencies, builds the ring pre-image tables, runs the determinism self-test.
cd "$(dirname "$0")"
/venv/bin/python -c "import twisted, cachetools, six; print('deps ok: twisted', twisted.__version__)" || exit 1
mkdir -p evidence replays build
PYTHONHASHSEED=0 /venv/bin/python -c "
import sys; sys.path.insert(0, '.')
from sim.props import routeprops
for ht in ('carbon_ch', 'fnv1a_ch'):
    routeprops.preimage(ht)
print('pre-image tables ready')" || exit 1
# Determinism self-test: informative, never fatal for the set-up (a failure is
# reported loudly; the checks themselves do not depend on it).
if ./check selftest --runs 6 --groups 2; then
  echo "setup: determinism self-test passed"
else
  echo "setup: WARNING determinism self-test reported a mismatch (see above)"
fi
exit 0
