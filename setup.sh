#!/bin/bash
# Offline set-up: nothing to build (pure Python on /venv); verify the toolchain
# and run a small determinism self-test.
set -e
cd "$(dirname "$0")"
/venv/bin/python -c "import twisted, cachetools, six; print('deps ok: twisted', twisted.__version__)"
mkdir -p evidence replays
if [ -f sim/selftest.py ]; then
  ./check selftest --runs 6
fi
