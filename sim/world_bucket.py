"""World E: carbon.util.TokenBucket alone on the virtual clock.

Thread R executes a plan of non-blocking and blocking acquisitions, peeks,
clock advances (zero, tiny, 1/rate, huge) and limit changes; optionally a second
simulated thread performs the limit change concurrently (that is what happens in
carbon: shutdownModifyUpdateSpeed runs on the reactor thread while the writer
thread blocks in drain()).  sleep() is the virtual sleep plus injected
oversleep.
"""
from .refmodels import RefLazyBucket


class BucketWorld(object):
  def __init__(self, w, plan, ctx, finish):
    self.w, self.plan, self.ctx, self.finish_cb = w, plan, ctx, finish
    self.s = w.sched
    self.grants = []      # (time, cost)
    self.changes = []     # (time, new capacity, new rate)

  def run(self):
    s, ctx, plan = self.s, self.ctx, self.plan
    s.finish = self.finish
    s.trace_file(self.w.util.__file__, 'u')
    for pat, pp in (plan.get('hot') or []):
      s.heat(pat, pp)
    ov = plan.get('oversleep') or [0.0]
    cnt = [0]
    self.last_oversleep = 0.0

    def hook(thread, d):
      if d > 0 and thread == 'R' and self.in_blocking:
        extra = ov[cnt[0] % len(ov)]
        cnt[0] += 1
        self.last_oversleep = extra
        if extra:
          ctx.fault('oversleep')
        return d + extra
      return d
    s.sleep_hook = hook
    self.in_blocking = False
    TB = self.w.util.TokenBucket
    cap, rate = plan['capacity'], plan['rate']
    b = TB(cap, rate)
    self.b = b
    self.rate_segments = [(s.now, float(rate))]
    self.caps = [(-1, float(cap))]      # (number of grants made before the change, capacity)
    ref = RefLazyBucket(cap, rate, s.now)
    single = not plan.get('t2ops')
    if plan.get('t2ops'):
      def t2():
        for op in plan['t2ops']:
          self.do_t2(op)
      s.spawn('T2', t2)
    s.start()
    for op in plan['ops']:
      k = op[0]
      ctx.log.add('op', *op)
      if k == 'advance':
        s.sleep(op[1])
        if op[1] == 0:
          ctx.probe('zero_step')
        elif op[1] >= 1e5:
          ctx.probe('huge_step')
      elif k == 'peek':
        got = b.peek(op[1])
        if single:
          exp = ref.available(op[1], s.now)
          if got != exp and abs(ref.tokens - op[1]) > 1e-6:
            ctx.violation('C20', 'peek-differs-from-reference', 'peek',
                          'peek(%r) -> %r at t=%r; reference bucket says %r (tokens %r)' % (
                            op[1], got, s.now, exp, ref.tokens))
      elif k == 'drain':
        cost, blocking = op[1], op[2]
        t0 = s.now
        self.in_blocking = blocking
        self.last_oversleep = 0.0
        if single:
          exp, exp_wait = ref.acquire(cost, t0, blocking)
        got = b.drain(cost, blocking)
        self.in_blocking = False
        t1 = s.now
        wait = t1 - t0
        if got:
          self.grants.append((t1, cost))
        if wait > 0:
          ctx.probe('blocking_wait')
        if blocking and not got:
          ctx.violation('C20', 'blocking-drain-refused', 'drain', 'blocking drain returned %r' % got)
        if single:
          if bool(got) != exp and abs(ref.tokens - cost) > 1e-6:
            ctx.violation('C20', 'grant-differs-from-reference', 'drain',
                          'drain(%r, blocking=%r) -> %r at t=%r; reference bucket says %r' % (
                            cost, blocking, got, t0, exp))
          elif wait > exp_wait + self.last_oversleep + 1e-6 * max(1.0, exp_wait):
            ctx.violation('C20', 'blocking-wait-too-long', 'drain',
                          'blocking drain(%r) waited %.6fs; the configured rate covers its deficit '
                          'in %.6fs (injected oversleep %.6f)' % (cost, wait, exp_wait,
                                                                  self.last_oversleep))
          elif wait < exp_wait - 1e-6 * max(1.0, exp_wait):
            ctx.violation('C20', 'blocking-wait-too-short', 'drain',
                          'blocking drain(%r) waited only %.6fs; the deficit needs %.6fs at the '
                          'configured rate' % (cost, wait, exp_wait))
      elif k == 'set':
        self.set_limits(op[1], op[2])
        if single:
          ref.set_limits(op[1], op[2])
      if single and b._tokens > b.capacity + 1e-9:
        ctx.violation('C20', 'tokens-exceed-capacity', 'bucket',
                      'bucket holds %r tokens, capacity %r' % (b._tokens, b.capacity))
    if plan.get('t2ops'):
      while s.alive('T2'):
        s.sleep(1.0)
    self.check_windows()
    self.finish('done')

  def refill_lo(self, ref, now):
    """Lower-bound bucket: refill since its last refresh at the lowest rate in
    force during that interval (a limit change does not refresh the bucket)."""
    segs = self.rate_segments
    rmin = min(r for i, (tt, r) in enumerate(segs)
               if tt <= now and (i + 1 == len(segs) or segs[i + 1][0] >= ref.t))
    if now > ref.t:
      ref.tokens = min(ref.capacity, ref.tokens + (now - ref.t) * rmin)
      ref.t = now

  def set_limits(self, cap, rate):
    self.ctx.probe('limit_change')
    # recorded before the call: a grant made by the other thread while this one is
    # pre-empted inside setCapacityAndFillRate already falls under the new limits
    # while the call is in progress (the changing thread can be pre-empted inside it) the
    # other thread may legitimately see either the old or the new limits: the larger of
    # the two is in force until the call has returned
    old_cap = self.caps[-1][1]
    old_rate = self.rate_segments[-1][1]
    self.changes.append((self.s.now, float(cap), float(rate)))
    self.rate_segments.append((self.s.now, max(old_rate, float(rate))))
    self.caps.append((len(self.grants), max(old_cap, float(cap))))
    self.b.setCapacityAndFillRate(cap, rate)
    self.rate_segments.append((self.s.now, float(rate)))
    self.caps.append((len(self.grants), float(cap)))

  def do_t2(self, op):
    if op[0] == 'advance':
      self.s.sleep(op[1])
    elif op[0] == 'set':
      self.ctx.probe('limit_change_from_second_thread')
      self.set_limits(op[1], op[2])

  def integral(self, t0, t1):
    total = 0.0
    segs = self.rate_segments
    for i, (ts, r) in enumerate(segs):
      te = segs[i + 1][0] if i + 1 < len(segs) else float('inf')
      a, b = max(t0, ts), min(t1, te)
      if b > a:
        total += (b - a) * r
    return total

  def check_windows(self):
    g = self.grants
    self.ctx.sigs.add('grants:%d' % min(len(g), 50))
    for i in range(len(g)):
      tot = 0.0
      for j in range(i, len(g)):
        tot += g[j][1]
        if j == i:
          continue
        t0, t1 = g[i][0], g[j][0]
        # capacity in force when grant i was made and every one set before grant j
        start_cap = [c for (gi, c) in self.caps if gi <= i][-1]
        inside = [c for (gi, c) in self.caps if i < gi <= j]
        maxburst = max([start_cap] + inside)
        allowed = self.integral(t0, t1) + 2 * maxburst + sum(inside)
        if tot > allowed + 1e-6 * max(1.0, allowed):
          self.ctx.violation('C20', 'rate-window-exceeded', 'bucket',
                             'grants %d..%d total %.6f tokens in [%.6f, %.6f]; rate integral %.6f + '
                             '2*burst %.6f + new bursts %.6f = %.6f' % (
                               i, j, tot, t0, t1, self.integral(t0, t1), maxburst, sum(inside), allowed))
          return

  def finish(self, reason):
    import sys
    sys.settrace(None)
    if reason.startswith('deadlock'):
      self.ctx.violation('C20', 'deadlock', 'scheduler', reason)
    self.finish_cb(reason, {'sim_seconds': self.s.now - 1000000.0, 'grants': len(self.grants)})
