"""simdb: an in-memory TimeSeriesDatabase plugin with per-call fault injection.

Registered through carbon's own plugin metaclass and selected by
`DATABASE = simdb` in the generated carbon.conf, so the writer reaches it
through its public storage API.
"""
import errno


def make_simdb(TimeSeriesDatabase):

  class SimDB(TimeSeriesDatabase):
    plugin_name = 'simdb'
    aggregationMethods = ['average', 'sum', 'last', 'max', 'min']

    def __init__(self, settings):
      self.files = {}          # metric -> {'args':..., 'points': [(ts, v), ...]}
      self.calls = []          # (seq, vtime, kind, metric, payload, outcome)
      self.fault_plan = {}     # call index -> ('raise', kind) | ('slow', seconds)
      self.ncalls = 0
      self.clock = None
      self.ctx = None
      self.sleeper = None
      self.on_call = None
      self.inflight = None

    # -- fault machinery -------------------------------------------------------
    def _enter(self, kind, metric, payload=None):
      i = self.ncalls
      self.ncalls += 1
      now = self.clock.now if self.clock is not None else 0.0
      rec = [i, now, kind, metric, payload, 'ok']
      self.calls.append(rec)
      f = self.fault_plan.get(i)
      if self.ctx is not None:
        self.ctx.log.add('db', i, kind, metric, f)
      if f is not None and f[0] != 'slow':
        rec[5] = 'raise'
      if self.on_call:
        self.on_call(rec)
      if f is not None:
        if f[0] == 'slow':
          if self.ctx is not None:
            self.ctx.fault('db_slow')
          if self.sleeper:
            self.inflight = kind          # the calling thread sleeps inside the backend call
            try:
              self.sleeper(f[1])
            finally:
              self.inflight = None
        else:
          rec[5] = 'raise'
          if self.ctx is not None:
            self.ctx.fault('db_%s_raises' % kind)
          if f[1] == 'enospc':
            raise OSError(errno.ENOSPC, 'No space left on device (injected)')
          if f[1] == 'ioerror':
            raise IOError('injected I/O error')
          raise RuntimeError('injected backend failure')
      return rec

    # -- TimeSeriesDatabase API ---------------------------------------------------
    def exists(self, metric):
      self._enter('exists', metric)
      return metric in self.files

    def create(self, metric, retentions, xfilesfactor, aggregation_method):
      self._enter('create', metric, (list(retentions) if retentions else retentions,
                                      xfilesfactor, aggregation_method))
      self.files[metric] = {'args': (retentions, xfilesfactor, aggregation_method),
                            'points': []}

    def write(self, metric, datapoints):
      dps = list(datapoints)
      self._enter('write', metric, dps)
      self.files[metric]['points'].extend(dps)

    def getMetadata(self, metric, key):
      return self.files[metric]['args'][2]

    def setMetadata(self, metric, key, value):
      return value

    def getFilesystemPath(self, metric):
      return '/sim/' + metric

    def validateArchiveList(self, archiveList):
      pass

    def tag(self, *metrics):
      self._enter('tag', ','.join(metrics))

  return SimDB
