"""Deterministic simulation of graphite carbon (see /verif/DESIGN.md)."""
