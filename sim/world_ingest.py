"""World A: carbon-cache listeners + admission + pipeline, reactor thread only.

Clients hand byte streams to SimNet; the plan decides every segment boundary,
the interleaving of connections, receiver pauses, datagram drop / duplication /
reordering, list-file rewrites and clock advances.  A recorder replaces the
pipeline's processors.  After every delivered chunk the recorder must hold
exactly the datapoints whose frames were completed by that chunk and that the
reference admission function admits (lists as of the last reload the timer
actually performed, -1 -> now, resolution flooring).
"""
import math
import os
import re

from twisted.python import log as txlog


class _PathShim(object):
  def __init__(self, world):
    self._w = world

  def getmtime(self, path):
    import errno
    import os
    w = self._w
    k = int(round((w.r.seconds() - w.t0) / 10.0))
    for name, lst in w.list_objs.items():
      if w.list_paths[name] == path and (k, name) in w.fs_faults and (k, name) not in w.fs_fired:
        w.fs_fired.add((k, name))
        w.ctx.fault('list_file_vanished_between_exists_and_getmtime')
        raise OSError(errno.ENOENT, 'No such file or directory (injected)', path)
    return os.path.getmtime(path)

  def __getattr__(self, name):
    import os
    return getattr(os.path, name)


class _OsShim(object):
  def __init__(self, world):
    self.path = _PathShim(world)
    self._w = world
    world.fs_fired = set()

  def access(self, path, mode):
    """The list file is unreadable (EACCES) for the duration of one reload tick -- injected
    only while the file is unmodified since it was last loaded, when nobody needs to open it."""
    import os
    w = self._w
    k = int(round((w.r.seconds() - w.t0) / 10.0))
    for name, lp in w.list_paths.items():
      if lp == path and (k, name) in w.unreadable and os.path.exists(path) \
          and os.path.getmtime(path) <= getattr(w, '_mt', {}).get(name, 0.0):
        w.ctx.fault('list_file_unreadable_at_tick')
        return False
    return os.access(path, mode)

  def __getattr__(self, name):
    import os
    return getattr(os, name)


def same_number(a, b):
  if a == b:
    if a == 0 and b == 0:
      return math.copysign(1.0, a) == math.copysign(1.0, b)
    return True
  return False


class SimUDPPort(object):
  """What a datagram protocol gets as its transport: the listening UDP port.  Closing it
  (loseConnection / stopListening) ends the reception of datagrams for good."""

  def __init__(self, world):
    self.world = world
    self.stopped = False

  def loseConnection(self):
    self.stopListening()

  def stopListening(self):
    self.stopped = True
    self.world.ctx.log.add('udp-port-closed')

  def pauseProducing(self):
    pass

  def resumeProducing(self):
    pass

  def getHost(self):
    from twisted.internet.address import IPv4Address
    return IPv4Address('UDP', '0.0.0.0', 2003)

  def write(self, data, addr=None):
    pass


class IngestWorld(object):
  def __init__(self, w, plan, ctx, finish):
    self.w, self.plan, self.ctx, self.finish_cb = w, plan, ctx, finish
    self.r = w.reactor
    self.got = []
    self.errors_logged = []
    self.lists = {'whitelist': [], 'blacklist': []}   # compiled reference lists in force
    self.ref_counts = {'blacklistMatches': 0, 'whitelistRejects': 0}
    self.prop = plan.get('prop', 'C01')
    self.pause_after = None

  # ---------------------------------------------------------------- set-up
  def install(self):
    w = self.w
    me = self
    from carbon.pipeline import Processor

    class Recorder(Processor):
      plugin_name = 'sim-recorder'

      def process(self, metric, datapoint):
        me.got.append((metric, datapoint))
        if me.pause_after is not None:
          me.pause_after -= 1
          if me.pause_after <= 0:
            me.pause_after = None
            me.ctx.fault('pause_raised_inside_a_chunk')
            me.w.events.pauseReceivingMetrics()
        return Processor.NO_OUTPUT
    w.state.pipeline_processors[:] = [Recorder()]
    txlog.addObserver(self.log_observer)
    if w.settings.USE_WHITELIST:
      import carbon.regexlist as rl
      from carbon.regexlist import WhiteList, BlackList
      self.list_objs = {'whitelist': WhiteList, 'blacklist': BlackList}
      # where the documentation puts the two files (never asked of the objects under test)
      conf_dir = os.path.join(os.environ['GRAPHITE_ROOT'], 'conf')
      self.list_paths = {n: os.path.join(conf_dir, n + '.conf') for n in self.list_objs}
      for name, lst in self.list_objs.items():
        self.snapshot_list(name, lst, initial=True)
      # The reference follows the *documented* schedule (lists re-read every 10 s), on
      # its own timer, so that a reload task that has died inside the daemon is noticed.
      self.t0 = self.r.seconds()
      self.r.callLater(10.0, self.ref_list_tick)
      # file-system fault seam: the list file vanishes between exists() and getmtime()
      self.fs_faults = set((int(k), n) for k, n in self.plan.get('fs_faults', []))
      self.unreadable = set((int(k), n) for k, n in self.plan.get('unreadable', []))
      rl.os = _OsShim(self)
      # ... and: the file is saved again while the daemon is reading it (the new content
      # appears, with a newer mtime, the moment the daemon has read the last line)
      self.saves = dict(((int(k), n), text) for k, n, text in self.plan.get('save_during_read', []))
      self.pre_save = {}
      me = self

      class Reading(object):
        def __init__(self, f, key):
          self.f, self.key = f, key

        def __iter__(self):
          return self

        def __next__(self):
          try:
            return next(self.f)
          except StopIteration:
            me.save_now(self.key)
            raise

      def sim_open(path, *a, **kw):
        f = open(path, *a, **kw)
        k = int(round((me.r.seconds() - me.t0) / 10.0))
        for name, lp in me.list_paths.items():
          if lp == path and (k, name) in me.saves and (k, name) not in me.pre_save:
            return Reading(f, (k, name))
        return f
      rl.open = sim_open

  def save_now(self, key):
    from . import boot
    name = key[1]
    path = self.list_paths[name]
    old_m = os.path.getmtime(path)
    with open(path, encoding='utf-8') as f:
      self.pre_save[key] = (f.read(), old_m)
    boot.write_file(name + '.conf', self.saves[key], max(int(self.r.seconds()) + 1, int(old_m) + 1))
    self.ctx.fault('list_file_saved_while_being_read')

  def ref_list_tick(self):
    k = int(round((self.r.seconds() - self.t0) / 10.0))
    for name, lst in self.list_objs.items():
      if (k, name) in self.fs_faults and os.path.exists(self.list_paths[name]):
        continue          # the file vanished while it was being re-read: nothing changes
      # a save that landed while the daemon was reading at this tick: what was read (and
      # hence is in force until the next tick) is the content from before the save
      self.snapshot_list(name, lst, override=self.pre_save.get((k, name)))
    self.r.callLater(10.0, self.ref_list_tick)

  def snapshot_list(self, name, lst, initial=False, override=None):
    """Reference view of a list file as of a reload the timer really performed:
    re-read the file ourselves with the documented semantics."""
    path = self.list_paths[name]
    pats = []
    if os.path.exists(path):
      mtime = override[1] if override else os.path.getmtime(path)
      key = (name, 'mtime')
      last = getattr(self, '_mt', {}).get(name, 0.0)
      if mtime <= last and not initial:
        return
      self._mt = getattr(self, '_mt', {})
      self._mt[name] = mtime
      for line in (override[0].splitlines(True) if override else open(path, encoding='utf-8')):
        p = line.strip()
        if line.startswith('#') or not p:
          continue
        try:
          pats.append(re.compile(p))
        except re.error:
          self.ctx.probe('list_line_uncompilable')
    else:
      self.ctx.probe('list_file_missing_at_reload')
    self.lists[name] = pats
    self.ctx.log.add('list-reload', name, len(pats))
    if not initial:
      self.ctx.probe('list_reload')

  def log_observer(self, event):
    if event.get('isError'):
      f = event.get('failure')
      self.errors_logged.append(f.type.__name__ if f is not None else 'err')

  # ---------------------------------------------------------------- reference admission
  def admit(self, dp):
    """-> normalised (metric, (ts, value)) or None."""
    m, ts, v = dp
    s = self.w.settings
    if s.USE_WHITELIST:
      if any(p.search(m) for p in self.lists['blacklist']):
        self.ref_counts['blacklistMatches'] += 1
        return None
      wl = self.lists['whitelist']
      if wl and not any(p.search(m) for p in wl):
        self.ref_counts['whitelistRejects'] += 1
        return None
    v = float(v)
    ts = float(ts)
    if v != v:
      return None
    if ts == -1:
      ts = self.w.simtime.time()          # the wall clock (may have been stepped)
      self.ctx.probe('timestamp_minus_one')
    res = s.MIN_TIMESTAMP_RESOLUTION
    if res:
      ts = int(ts) // res * res
    return (m, (ts, v))

  # ---------------------------------------------------------------- clients
  def open_clients(self):
    P = self.w.protocols
    from .reactor import SimPort
    self.clients = []
    # the listening port, as CarbonService would register it (connection limit)
    self.port = SimPort(self.r, 2003, None)
    self.w.state.listeningPorts.append(self.port)
    self.timeout = self.w.settings.METRIC_CLIENT_IDLE_TIMEOUT
    for i, c in enumerate(self.plan['clients']):
      st = {'spec': c, 'pos': 0, 'item': 0, 'void': False, 'pending': 0, 'got_total': 0, 't': None,
            'active': None, 'closed': False}
      if c['kind'] == 'udp':
        # a datagram protocol never sees connectionMade(): no peerName, no timeout
        proto = P.MetricDatagramReceiver()
        st['proto'] = proto
        st['port'] = SimUDPPort(self)
        proto.makeConnection(st['port'])
      self.clients.append(st)
    if not self.plan.get('late_connect'):
      for ci in range(len(self.clients)):
        self.connect(ci)

  def connect(self, ci):
    """A TCP client connects (now, or when the paused listening port accepts again)."""
    st = self.clients[ci]
    c = st['spec']
    if c['kind'] == 'udp' or st['t'] is not None or st['void']:
      return st['t'] is not None
    if self.port.paused:
      self.ctx.probe('client_waits_in_backlog')
      return False
    P = self.w.protocols
    f = P.CarbonReceiverFactory()
    f.protocol = {'line': P.MetricLineReceiver, 'pickle': P.MetricPickleReceiver}[c['kind']]
    t = self.r.accept(f, peer=('10.1.0.%d' % (ci + 1), 40000 + ci), label='c%d' % ci)
    if t is None:
      self.ctx.probe('connection_refused_at_limit')
      st['void'] = True
      return False
    st['t'] = t
    st['active'] = self.r.seconds()
    if not t.reading:
      self.ctx.probe('connected_while_paused')
    return True

  def client_done(self, ci):
    """The client has sent everything: it closes its connection (frees a slot)."""
    st = self.clients[ci]
    if st['closed'] or st['t'] is None or st['spec']['kind'] == 'udp':
      return
    if st['pos'] >= len(st['spec']['stream']) and not st['t'].disconnected:
      st['closed'] = True
      if ci in (self.plan.get('finish_reset') or ()):
        # everything was delivered and read; the client then drops the connection with a
        # reset (SO_LINGER 0, crash) instead of an orderly close
        self.ctx.fault('client_reset_after_last_byte')
        st['t'].peer_reset()
      else:
        st['t'].peer_close()
      self.r.run_due()
      for cj in range(len(self.clients)):
        self.connect(cj)

  def closed_by_server(self, ci):
    """The server closed this client's connection between two segments: legitimate only
    as an idle timeout (no datapoint for METRIC_CLIENT_IDLE_TIMEOUT seconds)."""
    st = self.clients[ci]
    t = st['t']
    if st['void'] or st['closed'] or t is None or not t.disconnected:
      return False
    st['void'] = True
    idle = self.r.seconds() - (st['active'] if st['active'] is not None else self.r.seconds())
    if self.timeout is not None and t.closed_by == 'local' and idle >= self.timeout - 1e-6:
      self.ctx.probe('idle_timeout_closed_connection')
      return True
    self.ctx.violation('C11' if self.prop == 'C11' else self.prop, 'connection-dropped', st['spec']['kind'],
                       '%s client %d: server closed the connection (%s) %.3fs after its last datapoint '
                       '(idle timeout %r) with %d bytes still to come' % (
                         st['spec']['kind'], ci, t.closed_by, idle, self.timeout,
                         len(st['spec']['stream']) - st['pos']))
    return True

  def compare(self, ci, expected, what):
    got = self.got
    self.got = []
    ok = len(got) == len(expected)
    if ok:
      for (gm, gd), (em, ed) in zip(got, expected):
        if gm != em or not same_number(gd[0], ed[0]) or not same_number(gd[1], ed[1]) \
            or len(gd) != 2:
          ok = False
          break
    if not ok:
      clause = 'ingest-mismatch'
      if len(got) < len(expected):
        clause = 'datapoint-lost'
      elif len(got) > len(expected):
        clause = 'unexpected-datapoint'
      kind = self.clients[ci]['spec']['kind']
      self.ctx.violation(self.prop, clause, kind,
                         '%s client %d, %s: pipeline received %d datapoints, expected %d; first '
                         'difference at #%d: got %r, expected %r' % (
                           kind, ci, what, len(got), len(expected), self.first_diff(got, expected),
                           got[self.first_diff(got, expected):][:2],
                           expected[self.first_diff(got, expected):][:2]))
    return ok

  @staticmethod
  def first_diff(got, expected):
    for i, (g, e) in enumerate(zip(got, expected)):
      if g[0] != e[0] or not same_number(g[1][0], e[1][0]) or not same_number(g[1][1], e[1][1]):
        return i
    return min(len(got), len(expected))

  def seg(self, ci, n):
    st = self.clients[ci]
    spec = st['spec']
    if spec['kind'] == 'udp' or st['void']:
      return
    stream = spec['stream']
    if st['pos'] >= len(stream):
      return
    if st['t'] is None and not self.connect(ci):
      return
    t = st['t']
    if t.disconnected:
      self.closed_by_server(ci)
      return
    if not t.reading:
      self.ctx.probe('segment_held_by_pause')
      return
    data = stream[st['pos']:st['pos'] + n]
    st['pos'] += len(data)
    self.classify_split(spec, st['pos'])
    # which items does this chunk complete?
    expected = []
    closes = False
    items = spec['items']
    while st['item'] < len(items) and items[st['item']]['end'] <= st['pos']:
      it = items[st['item']]
      st['item'] += 1
      if closes:
        continue
      if it.get('close'):
        closes = True
        continue
      for dp in it.get('dps') or []:
        if dp is None:
          continue
        a = self.admit(dp)
        if a is not None:
          expected.append(a)
    self.ctx.log.add('seg', ci, len(data))
    ok = self.r.deliver(t, bytes(data))
    if not ok:
      self.ctx.violation('C11', 'exception-escapes', self.r.escaped_errors[-1],
                         '%s client %d: %s while processing %r' % (
                           spec['kind'], ci, self.r.escaped_errors[-1], bytes(data)[:80]))
      st['void'] = True
      self.got = []
      return
    if expected:
      st['active'] = self.r.seconds()
    self.compare(ci, expected, 'after byte %d' % st['pos'])
    self.r.run_due()
    if t.disconnected or t.disconnecting:
      if closes:
        self.ctx.probe('overlength_frame_closed_connection')
      else:
        self.ctx.violation('C11', 'connection-dropped', spec['kind'],
                           '%s client %d: server closed the connection (%s) after byte %d although '
                           'no frame exceeded the maximum length' % (
                             spec['kind'], ci, t.closed_by, st['pos']))
      st['void'] = True
    elif closes:
      self.ctx.note('over-length frame did not close the connection')
      st['void'] = True

  def classify_split(self, spec, pos):
    """Distinct-state measure: which kind of boundary did this cut land on."""
    stream = spec['stream']
    if pos >= len(stream):
      return
    kind = spec['kind']
    b = stream[pos]
    cls = 'other'
    if kind == 'line':
      if 0x80 <= b < 0xC0:
        cls = 'mid-utf8-char'
      elif stream[pos - 1:pos] == b'\n':
        cls = 'at-delimiter'
      elif b in b'0123456789.e-+':
        cls = 'mid-number'
    else:
      for it in spec['items']:
        start = it['start']
        if start < pos < start + 4:
          cls = 'mid-length-prefix'
          break
        if pos == start:
          cls = 'at-frame-boundary'
          break
      else:
        cls = 'mid-pickle-body'
    self.ctx.sigs.add('%s/%s' % (kind, cls))
    self.ctx.probe('split_' + cls)

  def dgram(self, ci, k):
    st = self.clients[ci]
    spec = st['spec']
    if spec['kind'] != 'udp' or k >= len(spec['dgrams']):
      return
    d = spec['dgrams'][k]
    expected = []
    for dp in d['dps']:
      if dp is None:
        continue
      a = self.admit(dp)
      if a is not None:
        expected.append(a)
    self.ctx.log.add('dgram', ci, k)
    self.ctx.sigs.add('udp/datagram')
    if st['port'].stopped:
      # the socket is gone: the kernel would not hand this datagram to anybody
      if expected:
        self.ctx.violation(self.prop, 'udp-listener-closed', 'udp',
                           'udp client %d: the daemon closed its UDP listening port; datagram %d with '
                           '%d admissible datapoints has nowhere to go' % (ci, k, len(expected)))
      return
    try:
      st['proto'].datagramReceived(d['data'], ('10.2.0.%d' % (ci + 1), 5000))
    except Exception as e:
      txlog.err()
      self.ctx.violation('C11', 'exception-escapes', 'datagramReceived:%s' % type(e).__name__,
                         'udp client %d: %r escaped datagramReceived for %r; the rest of the '
                         'datagram was lost' % (ci, e, d['data'][:80]))
      self.got = []
      return
    self.compare(ci, expected, 'datagram %d' % k)

  # ---------------------------------------------------------------- main
  def run(self):
    plan, ctx = self.plan, self.ctx
    self.install()
    self.open_clients()
    for step in plan['steps']:
      k = step[0]
      if k == 'seg':
        self.seg(step[1] % len(self.clients), step[2])
      elif k == 'dgram':
        self.dgram(step[1] % len(self.clients), step[2])
      elif k == 'pause':
        # the flow-control pause; without USE_FLOW_CONTROL nothing in carbon-cache pauses
        # receivers, so the step is void
        if self.w.settings.USE_FLOW_CONTROL:
          self.w.events.pauseReceivingMetrics()
          ctx.fault('receiver_pause')
      elif k == 'pause_at':
        if self.w.settings.USE_FLOW_CONTROL:
          self.pause_after = step[1]
      elif k == 'cachefull':
        # what the cache signals when it is nearly full (pauses receivers only under
        # flow control)
        self.w.events.cacheFull()
        ctx.fault('cache_full_signal')
      elif k == 'cachespace':
        self.w.events.cacheSpaceAvailable()
      elif k == 'resume':
        self.w.events.resumeReceivingMetrics()
      elif k == 'advance':
        self.r.advance(step[1])
        ctx.log.add('advance', step[1])
      elif k == 'walljump':
        # the wall clock is stepped (NTP, operator); timers run on the monotonic clock
        self.w.simtime.offset += step[1]
        ctx.fault('wall_clock_step_' + ('forward' if step[1] > 0 else 'back'))
      elif k == 'file':
        from . import boot
        # mtime: the next whole second (default), or the exact (sub-second) instant
        exact = len(step) > 3 and step[3] == 'exact'
        boot.write_file(step[1], step[2], self.r.seconds() if exact else int(self.r.seconds()) + 1)
        ctx.fault('list_file_' + ('deleted' if step[2] is None else 'rewritten'))
        if exact:
          ctx.probe('list_file_subsecond_mtime')
    # deliver whatever is left, in one chunk per client
    self.pause_after = None
    for rounds in range(len(self.clients) + 1):
      self.w.events.cacheSpaceAvailable()
      self.w.events.resumeReceivingMetrics()
      for ci, st in enumerate(self.clients):
        if st['spec']['kind'] != 'udp':
          self.seg(ci, 1 << 30)
          self.client_done(ci)
    for ci, st in enumerate(self.clients):
      spec = st['spec']
      if spec['kind'] == 'udp' or st['void'] or st['pos'] >= len(spec['stream']):
        continue
      if st['t'] is None:
        ctx.violation(self.prop, 'client-never-accepted', spec['kind'],
                      '%s client %d was never accepted although every other client has finished and '
                      'left (listening port paused=%r, %d connected receivers, limit %r)' % (
                        spec['kind'], ci, self.port.paused,
                        len(self.w.state.connectedMetricReceiverProtocols),
                        self.w.settings.MAX_RECEIVER_CONNECTIONS))
      elif not st['t'].disconnected and not st['t'].reading:
        ctx.violation(self.prop, 'receiver-never-resumed', spec['kind'],
                      '%s client %d: %d bytes were never read: its connection is still paused although '
                      'space was signalled and receivers were resumed (USE_FLOW_CONTROL=%r)' % (
                        spec['kind'], ci, len(spec['stream']) - st['pos'],
                        self.w.settings.USE_FLOW_CONTROL))
    if self.got:
      ctx.violation(self.prop, 'unexpected-datapoint', 'end', 'stray datapoints %r' % (self.got[:5],))
    if self.w.settings.USE_WHITELIST:
      st = self.w.instrumentation.stats
      for k in ('blacklistMatches', 'whitelistRejects'):
        if st.get(k, 0) != self.ref_counts[k]:
          ctx.violation('C12', 'counter-mismatch', k,
                        '%s counter is %r, reference admission counted %r' % (
                          k, st.get(k, 0), self.ref_counts[k]))
    if self.r.escaped_errors:
      ctx.probe('exceptions_escaped', len(self.r.escaped_errors))
    self.finish_cb('done', {'sim_seconds': self.r.seconds() - 1000000.0})
