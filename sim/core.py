"""Core of the simulator: seeds, recorded choices, event log, run context.

One integer decides everything: a run seed feeds named child PRNG streams.  A
run is *generated* from the seed (config + plan) and *executed* from the
explicit plan plus a `Choices` object.  In random mode `Choices` draws the
scheduling decisions and records every decision that deviates from the
default; in explicit mode it replays a recorded set and draws nothing.
"""
import hashlib
import json
import random
import os

VERIF_ROOT = os.path.dirname(os.path.dirname(os.path.abspath(__file__)))


def derive_seed(*parts):
  h = hashlib.sha256(('|'.join(str(p) for p in parts)).encode()).digest()
  return int.from_bytes(h[:8], 'big')


def stream(seed, name):
  return random.Random(derive_seed(seed, name))


class Choices(object):
  """All run-time nondeterminism goes through here.

  * `pick(tag, n)` -- sequential per-tag choice among n alternatives (timer
    ties, which thread wakes, ...).  Default alternative is 0.
  * `preempt(key)` -- keyed thread pre-emption decision; key is
    (thread, file-id, line, n-th visit).  Default: no pre-emption.
  Recorded form (`dump()`) is JSON-able and is what a replay file stores.
  """

  def __init__(self, seed=None, explicit=None, p_preempt=0.0, p_tie=0.5,
               pct_points=None):
    self.random_mode = explicit is None
    self.rng = random.Random(seed) if self.random_mode else None
    self.p_preempt = p_preempt
    self.p_tie = p_tie
    self.pct_points = set(pct_points or ())
    self.counters = {}
    self.picks = {}     # tag -> {index: choice}
    self.pre = {}       # key-string -> True
    self.visits = {}
    self.nsteps = 0
    if explicit is not None:
      self.picks = {t: {int(k): v for k, v in d.items()}
                    for t, d in explicit.get('picks', {}).items()}
      self.pre = dict((k, True) for k in explicit.get('pre', []))

  def pick(self, tag, n):
    if n <= 1:
      return 0
    i = self.counters.get(tag, 0)
    self.counters[tag] = i + 1
    if self.random_mode:
      c = 0
      if self.rng.random() < self.p_tie:
        c = self.rng.randrange(n)
      if c:
        self.picks.setdefault(tag, {})[i] = c
      return c
    c = self.picks.get(tag, {}).get(i, 0)
    return c if c < n else 0

  def preempt(self, thread, fid, line, p=None):
    """Called at a pre-emption point; returns True if the thread must yield."""
    vk = (thread, fid, line)
    v = self.visits.get(vk, 0) + 1
    self.visits[vk] = v
    self.nsteps += 1
    if self.random_mode:
      if self.pct_points:
        # PCT-style: a few forced change points; explicit site probabilities (lock
        # release, heated lines) still apply
        hit = self.nsteps in self.pct_points or (p is not None and self.rng.random() < p)
      else:
        hit = self.rng.random() < (self.p_preempt if p is None else p)
      if hit:
        self.pre['%s:%s:%d:%d' % (thread, fid, line, v)] = True
      return hit
    if not self.pre:
      return False
    return ('%s:%s:%d:%d' % (thread, fid, line, v)) in self.pre

  def forget_preempt(self, thread, fid, line):
    """A recorded pre-emption that could not be honoured (no other thread
    runnable) is dropped so the recorded schedule stays minimal."""
    v = self.visits.get((thread, fid, line), 0)
    self.pre.pop('%s:%s:%d:%d' % (thread, fid, line, v), None)

  def dump(self):
    return {'picks': {t: {str(k): v for k, v in sorted(d.items())}
                      for t, d in sorted(self.picks.items()) if d},
            'pre': sorted(self.pre)}


class EventLog(object):
  """Append-only log of what happened in a run; its digest is the identity of
  the execution (determinism self-test compares digests)."""

  def __init__(self, keep=400):
    self.h = hashlib.sha256()
    self.n = 0
    self.keep = keep
    self.tail = []

  def add(self, *ev):
    s = repr(ev)
    self.h.update(s.encode('utf-8', 'backslashreplace'))
    self.n += 1
    if len(self.tail) < self.keep:
      self.tail.append(s)

  def digest(self):
    return self.h.hexdigest()[:24]


class Violation(object):
  def __init__(self, prop, clause, site, detail):
    self.prop = prop
    self.clause = clause
    self.site = site
    self.detail = detail

  @property
  def sig(self):
    return '%s:%s:%s' % (self.prop, self.clause, self.site)

  def as_dict(self):
    return {'prop': self.prop, 'sig': self.sig, 'detail': self.detail}


class RunCtx(object):
  """Per-run context shared by world, oracles and the scheduler."""

  def __init__(self, choices):
    self.ch = choices
    self.log = EventLog()
    self.violations = []
    self.probes = {}
    self.faults = {}
    self.notes = []
    self.sigs = set()     # abstract-state signatures reached (distinctness measure)
    self._vseen = set()

  def violation(self, prop, clause, site, detail):
    v = Violation(prop, clause, site, str(detail)[:1500])
    if v.sig in self._vseen:
      return
    self._vseen.add(v.sig)
    self.violations.append(v)
    self.log.add('VIOLATION', v.sig)

  def probe(self, name, n=1):
    self.probes[name] = self.probes.get(name, 0) + n

  def fault(self, name, n=1):
    self.faults[name] = self.faults.get(name, 0) + n

  def note(self, text):
    if len(self.notes) < 20:
      self.notes.append(text)

  def result(self, extra=None):
    r = {
      'violations': [v.as_dict() for v in self.violations],
      'probes': self.probes, 'faults': self.faults, 'notes': self.notes,
      'digest': self.log.digest(), 'nevents': self.log.n,
      'sigs': sorted(self.sigs)[:200], 'nsigs': len(self.sigs),
      'choices': self.ch.dump(), 'steps': self.ch.nsteps,
    }
    if extra:
      r.update(extra)
    return r


def jdump(obj):
  return json.dumps(obj, sort_keys=True, default=_jdefault)


def _jdefault(o):
  if isinstance(o, (set, frozenset)):
    return sorted(o)
  if isinstance(o, bytes):
    return {'__bytes__': o.hex()}
  if isinstance(o, tuple):
    return list(o)
  return repr(o)


def unbytes(o):
  """Inverse of the bytes encoding used by jdump (for plans holding raw bytes)."""
  if isinstance(o, dict):
    if set(o) == {'__bytes__'}:
      return bytes.fromhex(o['__bytes__'])
    return {k: unbytes(v) for k, v in o.items()}
  if isinstance(o, list):
    return [unbytes(x) for x in o]
  return o
