"""C04 -- an orderly shutdown writes out everything that was accepted."""
from . import cacheworld as cw

PROP = 'C04'
PROFILE = 'c04'
QUICK = (192, 60, 60.0)
THOROUGH = (160, 100, 840.0)
boot, execute, cfg_sig, nontrivial = cw.boot, cw.execute, cw.cfg_sig, cw.nontrivial
SHRINK_LISTS, SHRINK_DICTS = cw.SHRINK_LISTS, cw.SHRINK_DICTS


def gen_config(rng, tier):
  return cw.gen_config(rng, tier, PROFILE)


def gen_plan(rng, cfg, tier):
  return cw.gen_plan(rng, cfg, tier, PROFILE)


# ---- thorough tier: crash-point enumeration ------------------------------------
# For every ENUM_EVERY-th seeded run the stop is additionally injected at *every* line
# the writer thread executes after the receiver's last operation (each line of each
# loop iteration, the rate-limit waits and the idle sleeps included), one re-execution
# per placement, from the schedule the base run recorded.
ENUM_EVERY = {'thorough': 8, 'quick': 60}
LEVEL_NOTE = 'exploration + crash-point enumeration relative to seeded base runs'


def enumeration_base(plan):
  p = dict(plan)
  p['ops'] = [op for op in plan['ops'] if op[0] != 'stop']
  p['stop_at_end'] = False
  p.pop('db_faults', None)
  return p


def enumerate_variants(base, bres, rng, tier):
  n = int(bres.get('w_steps_after_ops', 0))
  js = list(range(1, n + 1))
  cap = 250 if tier == 'thorough' else 30
  if len(js) > cap:
    # thorough: every line up to 250 placements; quick: a seeded sample of 30
    js = sorted(rng.sample(js, cap)) if tier != 'thorough' else \
        sorted(set(js[int(i * len(js) / float(cap))] for i in range(cap)))
  for j in js:
    v = dict(base)
    v['ops'] = list(base['ops']) + [['stop_at_wstep', j]]
    yield v
