"""C15 -- what a relay's client encodes is what the next daemon's listener decodes."""
from . import relayworld as rw

PROP = 'C15'
PROFILE = 'c15'
QUICK = (160, 40, 60.0)
THOROUGH = (1500, 60, 840.0)
boot, execute, cfg_sig, nontrivial = rw.boot, rw.execute, rw.cfg_sig, rw.nontrivial
SHRINK_LISTS, SHRINK_DICTS = rw.SHRINK_LISTS, rw.SHRINK_DICTS


def gen_config(rng, tier):
  return rw.gen_config(rng, tier, PROFILE)


def gen_plan(rng, cfg, tier):
  return rw.gen_plan(rng, cfg, tier, PROFILE)
