"""C20 -- update and create rate limits hold over every time window.

World E: TokenBucket alone on the virtual clock (primary).  World B: the
writer's UPDATE_BUCKET / CREATE_BUCKET as built by the real import-time code,
observed as virtual call times of simdb.write / simdb.create, including across
shutdownModifyUpdateSpeed.
"""
from . import cacheworld as cw
from .. import boot as simboot
from ..world_bucket import BucketWorld

PROP = 'C20'
QUICK = (128, 80, 60.0)
THOROUGH = (1600, 120, 840.0)
SHRINK_LISTS = ['ops', 'wops', 't2ops']
SHRINK_DICTS = ['db_faults']


def gen_config(rng, tier):
  if rng.random() < 0.55:
    return {'daemon': 'cache', 'world': 'E', 'settings': {}, 'files': {}}
  cfg = cw.gen_config(rng, tier, 'c20')
  cfg['world'] = 'B'
  return cfg


def cfg_sig(cfg):
  return 'E' if cfg.get('world') == 'E' else 'B:' + cw.cfg_sig(cfg)


def boot(cfg):
  return simboot.boot(cfg, use_threads=True)


def gen_plan(rng, cfg, tier):
  if cfg.get('world') != 'E':
    return cw.gen_plan(rng, cfg, tier, 'c20')
  cap = rng.choice([1, 1, 2, 5, 10, 50, 500, 1000])
  rate = rng.choice([1 / 60.0, 1 / 6.0, 0.5, 1.0, 2.0, 5.0, 50.0, 500.0, 1000.0])
  ops = []
  n = rng.randint(3, 40 if tier == 'quick' else 80)
  for _ in range(n):
    x = rng.random()
    cost = rng.choice([1, 1, 1, 1, 0.5])
    if x < 0.35:
      ops.append(['drain', cost, False])
    elif x < 0.6:
      ops.append(['drain', cost, True])
    elif x < 0.68:
      ops.append(['peek', cost])
    elif x < 0.93:
      ops.append(['advance', rng.choice([0.0, 0.0, 1e-6, 1.0 / rate, 0.5 / rate, 1.0, 0.1, 7.3, 1e6])])
    else:
      ops.append(['set', rng.choice([1, 2, 10, 100, 1000]), rng.choice([0.5, 1.0, 10.0, 1000.0])])
  plan = {'capacity': cap, 'rate': rate, 'ops': ops, 'p_preempt': rng.choice([0.0, 0.05, 0.3])}
  if rng.random() < 0.4:
    plan['oversleep'] = [rng.choice([0.0, 1e-4, 0.05, 2.0]) for _ in range(4)]
  if rng.random() < 0.3:
    t2 = []
    # exactly one change from the second thread: in carbon a bucket's limits are changed
    # once, by the reactor thread at shutdown, while the writer thread acquires
    for _ in range(1):
      # (also the long steps R takes: both threads then wake at the same instant, and the
      # limit change can land inside an acquisition that follows a long quiet period)
      t2.append(['advance', rng.choice([0.0, 0.01, 0.5, 3.0, 1e6, 1e6, 7.3, 1.0])])
      t2.append(['set', rng.choice([1, 10, 1000]), rng.choice([1.0, 10.0, 1000.0])])
    if rng.random() < 0.35:
      # structured history: the burst is used up, a long quiet period follows, and the
      # limits are changed at the very instant the next acquisitions are made
      cap2 = rng.choice([1, 2, 5, 10])
      x = rng.choice([1e6, 1e6, 100.0 / rate, 3600.0])
      ops = [['drain', 1, False] for _ in range(cap2 + rng.randint(0, 2))] + [['advance', x]] + \
            [['drain', 1, rng.random() < 0.3] for _ in range(rng.randint(3, 12))]
      t2 = [['advance', x], ['set', rng.choice([1, 1, 2, 20]), rng.choice([0.5, 1.0, 10.0])]]
      plan['capacity'] = cap2
      plan['ops'] = ops
    plan['t2ops'] = t2
    if rng.random() < 0.6:
      # schedule bias: the bucket's own bookkeeping lines (read-compute-store of the balance)
      plan['hot'] = [[r'_tokens|self\.capacity|fill_rate', rng.choice([0.3, 0.6])]]
    # in carbon exactly one thread changes the limits (the reactor thread, at shutdown)
    # while another one acquires: with a second thread present, R only acquires
    plan['ops'] = [op for op in ops if op[0] != 'set']
  return plan


def execute(w, plan, ctx, finish):
  if w.cfg.get('world') == 'E':
    w.sched.ctx = ctx
    w.reactor.ctx = ctx
    BucketWorld(w, plan, ctx, finish).run()
  else:
    cw.execute(w, plan, ctx, finish)


def nontrivial(res):
  p = res.get('probes', {})
  return any(k in p for k in ('blocking_wait', 'limit_change', 'rate_limited_write_calls',
                              'rate_limited_create_calls', 'huge_step', 'zero_step'))


# ---- crash-point enumeration: the stop (which switches the limits) injected at every line
# the writer thread executes after the receiver's last operation (world-B runs only)
from . import c04 as _c04
ENUM_EVERY = {'thorough': 10, 'quick': 40}


def enumeration_base(plan):
  if 'capacity' in plan:
    return plan
  return _c04.enumeration_base(plan)


def enumerate_variants(base, bres, rng, tier):
  if 'capacity' in base:
    return []
  return _c04.enumerate_variants(base, bres, rng, tier)
