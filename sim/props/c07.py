"""C07 -- relay send queues deliver in order, exactly once, within their bounds."""
from . import relayworld as rw

PROP = 'C07'
PROFILE = 'c07'
QUICK = (400, 40, 60.0)
THOROUGH = (1500, 60, 840.0)
boot, execute, cfg_sig, nontrivial = rw.boot, rw.execute, rw.cfg_sig, rw.nontrivial
SHRINK_LISTS, SHRINK_DICTS = rw.SHRINK_LISTS, rw.SHRINK_DICTS


def gen_config(rng, tier):
  return rw.gen_config(rng, tier, PROFILE)


def gen_plan(rng, cfg, tier):
  return rw.gen_plan(rng, cfg, tier, PROFILE)
