"""C16 -- rule-based and aggregation-aware routing follow their rule files."""
from . import relayworld as rw

PROP = 'C16'
PROFILE = 'c16'
QUICK = (240, 20, 60.0)
THOROUGH = (600, 40, 840.0)
boot, execute, cfg_sig, nontrivial = rw.boot, rw.execute, rw.cfg_sig, rw.nontrivial
SHRINK_LISTS, SHRINK_DICTS = rw.SHRINK_LISTS, rw.SHRINK_DICTS


def gen_config(rng, tier):
  return rw.gen_config(rng, tier, PROFILE)


def gen_plan(rng, cfg, tier):
  return rw.gen_plan(rng, cfg, tier, PROFILE)
