"""Configuration / plan generators shared by the world-B properties
(C02 C03 C04 C09-cache C10 C17 C19 C20-writer).  A *profile* biases the swarm
towards the behaviour its property needs; everything is drawn from the PRNG
streams handed in, nothing else."""
from .. import boot as simboot
from ..world_cache import CacheWorld, STRATEGIES

T0 = 1000000.0
METRICS = ['m0', 'm1', 'm2', 'm3', 'm4']
EXOTIC = ['a.b;t2=y;t1=x', 'a.b;t1=x;t2=y', 'sys.cpu{h="a"}', '..x', 'µ.é', 'a/b', 'k;=bad']
TS = [T0 - 120.0, T0 - 30.0, T0 - 2.0, T0 + 1.0]


def boot(cfg):
  w = simboot.boot(cfg, use_threads=True)
  return w


def execute(w, plan, ctx, finish):
  w.sched.ctx = ctx
  w.reactor.ctx = ctx
  # carbon.cache.choice (random strategy) -> run choices
  w.cache_mod.choice = lambda seq: seq[ctx.ch.pick('rand', len(seq))]
  CacheWorld(w, plan, ctx, finish).run()


def gen_config(rng, tier, profile):
  s = {}
  strat = rng.choice(STRATEGIES)
  if profile == 'c17' and rng.random() < 0.3:
    strat = rng.choice(['bucketmax', 'timesorted', 'sorted'])
  if profile == 'c04' and rng.random() < 0.25:
    strat = 'timesorted'        # the strategy whose hold-back (MIN_TIMESTAMP_LAG) the shutdown must lift
  s['CACHE_WRITE_STRATEGY'] = strat
  bounded = rng.random() < {'c10': 1.0, 'c09': 1.0, 'c02': 0.65, 'c17': 0.4}.get(profile, 0.3)
  if bounded:
    s['MAX_CACHE_SIZE'] = rng.choice([1, 2, 3, 4, 5, 6, 6, 20, 40] if profile == 'c10' else
                                     [1, 2, 3, 4, 5, 6, 8, 20])
    s['USE_FLOW_CONTROL'] = (rng.random() < (1.0 if profile == 'c09' else 0.5))
  else:
    s['MAX_CACHE_SIZE'] = float('inf')
    s['USE_FLOW_CONTROL'] = rng.random() < 0.5
  if strat == 'timesorted' or rng.random() < 0.15:
    s['MIN_TIMESTAMP_LAG'] = rng.choice([0, 0, 5, 60] if profile != 'c04' else [0, 5, 60, 60])
  if profile in ('c03', 'c04', 'c19', 'c20', 'c09'):
    s['MAX_UPDATES_PER_SECOND'] = rng.choice([float('inf'), 1, 2, 5, 50, 500])
    s['MAX_CREATES_PER_MINUTE'] = rng.choice([float('inf'), float('inf'), 1, 2, 10, 60])
    if rng.random() < 0.4:
      s['MAX_UPDATES_PER_SECOND_ON_SHUTDOWN'] = rng.choice([1, 10, 1000])
    if profile == 'c20' and rng.random() < 0.25:
      s['MAX_UPDATES_PER_SECOND_ON_SHUTDOWN'] = 1       # a gentle shutdown: slower than normal operation
    if profile == 'c20':
      s['MAX_UPDATES_PER_SECOND'] = rng.choice([1, 2, 3, 5, 10])
      s['MAX_CREATES_PER_MINUTE'] = rng.choice([1, 2, 6, 30, 60])
  else:
    s['MAX_UPDATES_PER_SECOND'] = float('inf')
    s['MAX_CREATES_PER_MINUTE'] = float('inf')
  if profile == 'c03' and rng.random() < 0.1:
    s['CARBON_METRIC_INTERVAL'] = rng.choice([5, 10, 30])    # counters are reported and reset at ticks
  if profile == 'c10' and rng.random() < 0.25:
    s['CARBON_METRIC_INTERVAL'] = rng.choice([5, 10, 30])    # the daemon reports its own counters
  if profile == 'c02' and rng.random() < 0.12:
    # a timestamp resolution coarser than the daemon's own reporting interval: client
    # datapoints reach the cache aligned, the daemon's own records do not
    s['MIN_TIMESTAMP_RESOLUTION'] = rng.choice([10, 60])
    s['CARBON_METRIC_INTERVAL'] = 5
  cfg = {'daemon': 'cache', 'settings': s, 'files': {}, 'profile': profile}
  if profile == 'c19':
    from . import c19
    cfg['files'].update(c19.gen_schema_files(rng))
  return cfg


def cfg_sig(cfg):
  s = cfg['settings']
  return '%s/max=%s/fc=%s/lag=%s/ups=%s/cpm=%s' % (
    s.get('CACHE_WRITE_STRATEGY'), s.get('MAX_CACHE_SIZE'), s.get('USE_FLOW_CONTROL'),
    s.get('MIN_TIMESTAMP_LAG', 0), s.get('MAX_UPDATES_PER_SECOND'), s.get('MAX_CREATES_PER_MINUTE'))


def gen_dps(rng, k, counter, names):
  out = []
  for _ in range(k):
    counter[0] += 1
    # mostly unique values (every read attributable to one write); now and then the
    # falsy ones, which must be stored, overwritten and counted like any other
    v = float(counter[0]) if rng.random() > 0.12 else rng.choice([0.0, 0.0, -0.0, 0])
    out.append((rng.choice(names), rng.choice(TS), v))
  return out


def gen_plan(rng, cfg, tier, profile):
  s = cfg['settings']
  plan = {'profile': profile}
  if profile in ('c02', 'c10', 'c17'):
    plan['wmode'] = 'drain' if rng.random() < 0.7 else 'writer'
  else:
    plan['wmode'] = 'writer'
  nm = rng.randint(1, 5)
  names = METRICS[:nm]
  if rng.random() < 0.15:
    names = names + [rng.choice(EXOTIC)]
  if profile == 'c19':
    from . import c19
    names = c19.metric_names(rng, cfg)
  nops = rng.randint(3, 30 if tier == 'quick' else 60)
  counter = [0]
  ops = []
  weights = {
    'send': 10, 'udp': 1, 'sleep': 2, 'query': 0, 'bulk': 0, 'connect': 0, 'disconnect': 0,
    'schema': 0, 'clockjump': 0,
  }
  if profile == 'c02':
    weights.update(query=3, bulk=1, udp=3)      # datagrams keep arriving while receivers are paused
  if profile == 'c09':
    weights.update(connect=2, disconnect=2, udp=2, sleep=3)
  if profile in ('c03', 'c04', 'c20'):
    weights.update(sleep=3, query=1, bulk=1, clockjump=1)
  if profile == 'c19':
    weights.update(schema=2, sleep=4)
  weights['setlag'] = 0
  if profile == 'c17' and s.get('CACHE_WRITE_STRATEGY') == 'timesorted':
    weights['setlag'] = 2      # the lag changes at run time (shutdown resets it to 0)
  kinds = [k for k, wgt in weights.items() for _ in range(wgt)]
  structured = profile == 'c09' and rng.random() < 0.6
  if structured:
    # pause/resume cycles: a burst that crosses the high watermark, a sleep that
    # lands R's next ops at the instant the writer wakes, then connection churn
    ops = []
    mx = s.get('MAX_CACHE_SIZE', 4)
    mx = 4 if mx == float('inf') else int(mx)
    for _ in range(rng.randint(1, 4)):
      for _ in range(rng.randint(1, 3)):
        ops.append(['send', rng.randrange(4), gen_dps(rng, rng.randint(1, mx + 2), counter, names)])
      ops.append(['sleep', rng.choice([1.0, 1.0, 1.0, 0.5, 2.0, 0.999])])
      for _ in range(rng.randint(0, 3)):
        k = rng.choice(['connect', 'connect', 'disconnect', 'send', 'udp'])
        if k == 'connect':
          ops.append(['connect', rng.choice(['line', 'pickle'])])
        elif k == 'disconnect':
          ops.append(['disconnect', rng.randrange(4), rng.random() < 0.5])
        elif k == 'send':
          ops.append(['send', rng.randrange(4), gen_dps(rng, rng.randint(1, 3), counter, names)])
        else:
          ops.append(['udp', gen_dps(rng, rng.randint(1, 3), counter, names)])
    nops = 0
  burst = s.get('MAX_CACHE_SIZE', float('inf'))
  for i in range(nops):
    k = rng.choice(kinds)
    if k == 'send':
      n = rng.choice([1, 1, 1, 2, 3, 5]) if profile != 'c09' else rng.choice([1, 2, 3, 5, 8])
      ops.append(['send', rng.randrange(4), gen_dps(rng, n, counter, names)])
    elif k == 'udp':
      ops.append(['udp', gen_dps(rng, rng.choice([1, 2, 4]), counter, names)])
    elif k == 'sleep':
      ops.append(['sleep', rng.choice([0.0, 0.05, 0.5, 1.0, 1.0, 2.5, 10.0, 61.0])])
    elif k == 'query':
      ops.append(['query', rng.choice(names + ['never.stored'])])
    elif k == 'bulk':
      ops.append(['bulk', rng.sample(names + ['never.stored'], rng.randint(1, len(names)))])
    elif k == 'clockjump':
      ops.append(['clockjump', rng.choice([0.001, 0.5, 3.0, 120.0])])
    elif k == 'connect':
      ops.append(['connect', rng.choice(['line', 'line', 'pickle'])])
    elif k == 'disconnect':
      ops.append(['disconnect', rng.randrange(4), rng.random() < 0.5])
    elif k == 'schema':
      from . import c19
      ops.append(c19.gen_schema_op(rng, cfg))
    elif k == 'setlag':
      ops.append(['setlag', rng.choice([0, 0, 5, 60, 120])])
  if profile == 'c19' and rng.random() < 0.6:
    # aim new metrics at the instant of the 60 s schema reload: the writer's pass and
    # the reload LoopingCall are then both due at the same virtual time
    from . import c19
    ops = []
    for cycle in range(rng.randint(1, 3)):
      for _ in range(rng.randint(0, 2)):
        ops.append(['send', rng.randrange(4), gen_dps(rng, rng.randint(1, 3), counter, names)])
      for _ in range(rng.randint(1, 2)):
        ops.append(c19.gen_schema_op(rng, cfg))
      ops.append(['sleep', rng.choice([59.0, 59.5, 59.9, 58.0])])
      for _ in range(rng.randint(1, 3)):
        ops.append(['send', rng.randrange(4), gen_dps(rng, rng.randint(1, 4), counter,
                                                      names + ['new%d.cpu' % cycle, 'sys.new%d' % cycle,
                                                               'm0.new%d' % cycle])])
      ops.append(['sleep', rng.choice([1.0, 0.5, 0.1, 2.0])])
      ops.append(['sleep', rng.choice([0.0, 0.5, 1.0])])
    plan['file_p'] = {'w': rng.choice([0.02, 0.1, 0.3])}
    plan['hot'] = [[r'\bschema\b|SCHEMAS', rng.choice([0.3, 0.6])]]
    plan['p_tie'] = 0.9
  if profile == 'c04' and rng.random() < 0.15:
    # storage-schemas.conf is missing when a 60 s reload tick fires (a botched deployment);
    # new metrics keep arriving afterwards
    at = rng.randint(0, len(ops))
    ops[at:at] = [['schema', 'storage-schemas.conf', None], ['sleep', rng.choice([60.0, 61.0, 59.5])]]
    for _ in range(rng.randint(1, 3)):
      ops.insert(rng.randint(at + 2, len(ops)),
                 ['send', rng.randrange(4), gen_dps(rng, rng.randint(1, 3), counter, ['late%d.m' % rng.randrange(3)])])
  if profile == 'c04':
    pos = rng.randint(1, len(ops))
    ops.insert(pos, ['stop'])
    tail = [op for op in ops[pos + 1:] if op[0] in ('send', 'udp')]
    ops = ops[:pos + 1]
    if tail and rng.random() < 0.3:
      # the shutdown takes a moment to get past its first phase: established connections
      # deliver a little more in the meantime
      k = rng.randint(1, min(3, len(tail)))
      plan['stop_window'] = k
      ops += tail[:k]
  elif profile == 'c10' and rng.random() < 0.25:
    k = rng.randint(1, 4)
    plan['stop_window'] = k
    ops.append(['stop'])
    for _ in range(k):
      ops.append(['send', rng.randrange(4), gen_dps(rng, rng.choice([1, 2, 3, 5]), counter, names)])
  elif profile == 'c20' and rng.random() < 0.3:
    # the stop arrives with a backlog: the writer's bucket is used up by a first burst, a
    # second burst is still cached when the limits are switched to the shutdown values
    many = ['b%d' % i for i in range(rng.randint(4, 9))]
    for rnd in range(2):
      ops.append(['send', rng.randrange(4), [(m, rng.choice(TS), float(rnd * 100 + i)) for i, m in enumerate(many)]])
      ops.append(['sleep', rng.choice([0.0, 0.05, 0.5, 1.0])])
    ops.append(['send', rng.randrange(4), [(m, 999999.0, float(300 + i)) for i, m in enumerate(many)]])
    ops.append(['stop'])
  elif profile in ('c03', 'c20') and rng.random() < 0.3:
    plan['stop_at_end'] = True
  plan['ops'] = ops
  plan['nconn'] = rng.randint(1, 3)
  plan['conn_kinds'] = [rng.choice(['line', 'line', 'pickle']) for _ in range(plan['nconn'])]
  plan['wstart'] = rng.choice([0, 0, 0, rng.randint(0, max(1, len(ops) - 1))])
  if plan['wmode'] == 'drain':
    nd = rng.randint(1, 12)
    wops = []
    for _ in range(nd):
      wops.append(['drain'] if rng.random() < 0.85 else ['sleep', rng.choice([0.1, 1.0, 6.0])])
    plan['wops'] = wops
  plan['p_preempt'] = rng.choice([0.005, 0.02, 0.05, 0.1, 0.2, 0.5])
  plan['p_lock'] = rng.choice([None, 0.5, 0.5, 0.9])
  if profile == 'c09' and rng.random() < 0.7:
    hot = rng.choice([0.2, 0.5, 0.8])
    plan['file_p'] = {'e': hot, 'p': rng.choice([hot, 0.1])}
  if profile in ('c02', 'c10') and 'hot' not in plan and rng.random() < 0.3:
    # the unlocked bookkeeping after a drain (size, cacheTooFull) against a concurrent store
    plan['hot'] = [[r'cacheTooFull|self\.size\b', rng.choice([0.3, 0.6])]]
  if 'hot' not in plan and rng.random() < (0.45 if profile == 'c09' else 0.25):
    # PCT-style schedule: d forced change points, long uninterrupted stretches in
    # between (a whole writer pass inside one window of the other thread)
    n = rng.choice([200, 600, 2000, 6000])
    plan['pct_points'] = sorted(rng.sample(range(1, n), rng.choice([1, 2, 3, 5])))
    plan['p_preempt'] = 0.0
    plan.pop('file_p', None)
    plan['p_lock'] = rng.choice([0.3, 0.6, 0.9])
  if False and profile in ('c02', 'c10', 'c17'):
    # DISABLED: CPython 3.12.1 segfaults when `opcode` trace events are combined with the
    # baton hand-off between real threads (see DESIGN.md section 13); pre-emption stays at
    # source-line granularity
    # pre-emption between the bytecodes of carbon/cache.py (read-modify-write of size etc.)
    plan['opcode'] = True
    plan['p_opcode'] = rng.choice([0.005, 0.02, 0.1])
  if profile == 'c03' and rng.random() < 0.8:
    nf = rng.choice([1, 1, 2, 3, 6])
    faults = {}
    for _ in range(nf):
      idx = rng.randrange(0, 40)
      faults[str(idx)] = rng.choice([['raise', 'ioerror'], ['raise', 'enospc'],
                                     ['raise', 'runtime'], ['slow', rng.choice([0.5, 2.0])]])
    plan['db_faults'] = faults
  elif profile in ('c04', 'c09', 'c19', 'c20') and rng.random() < 0.3:
    plan['db_faults'] = {str(rng.randrange(0, 30)): ['slow', rng.choice([0.3, 1.5, 5.0])]}
  if profile in ('c02', 'c10') and plan['wmode'] == 'writer' and rng.random() < 0.5:
    plan['db_faults'] = {str(rng.randrange(0, 16)): ['raise', 'ioerror'] for _ in range(rng.randint(1, 3))}
  if profile == 'c20' and rng.random() < 0.5:
    # failing creates must still be charged against MAX_CREATES_PER_MINUTE
    plan.setdefault('db_faults', {}).update(
      {str(rng.randrange(0, 24)): ['raise', 'enospc'] for _ in range(rng.randint(1, 6))})
  if profile == 'c19' and rng.random() < 0.5:
    plan.setdefault('db_faults', {})[str(rng.randrange(0, 12))] = ['raise', 'ioerror']
  if rng.random() < 0.3:
    plan['oversleep'] = [rng.choice([0.0, 0.0, 0.001, 0.3]) for _ in range(5)]
  if profile in ('c04', 'c20') and rng.random() < 0.5:
    plan['shutdown_gaps'] = True       # the reactor thread is descheduled between shutdown triggers
  if profile in ('c02', 'c10') and rng.random() < 0.15:
    plan['stall'] = rng.choice([0.3, 1.0, 5.0])      # a thread stalls while it holds the cache lock
  if 'hot' not in plan and 'pct_points' not in plan and rng.random() < 0.3:
    # race-directed schedule: a thread is pre-empted where it runs carbon/cache.py code
    # while holding no lock (the only place a check-then-act window can be), and the
    # thread that takes over then runs on (almost) undisturbed
    plan['p_unlocked'] = {'c': rng.choice([0.15, 0.4, 0.8])}
    plan['p_preempt'] = rng.choice([0.0, 0.0, 0.005])
    plan['p_lock'] = rng.choice([None, 0.3])
    plan.pop('file_p', None)
  return plan


SHRINK_LISTS = ['ops', 'wops']
SHRINK_DICTS = ['db_faults']


def nontrivial(res):
  p = res.get('probes', {})
  return bool(p)
