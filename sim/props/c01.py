"""C01 -- well-formed datapoints are ingested exactly, however the byte stream is cut."""
from . import ingest as ig

PROP = 'C01'
QUICK = (288, 120, 60.0)
THOROUGH = (1200, 200, 840.0)
boot, execute = ig.boot, ig.execute
shrink_plan = ig.shrink_plan
SHRINK_LISTS, SHRINK_DICTS = ig.SHRINK_LISTS, ig.SHRINK_DICTS


def gen_config(rng, tier):
  s = {'USE_FLOW_CONTROL': rng.random() < 0.7}
  if rng.random() < 0.3:
    s['PICKLE_RECEIVER_MAX_LENGTH'] = rng.choice([4096, 65536])
  if rng.random() < 0.25:
    s['MAX_RECEIVER_CONNECTIONS'] = rng.choice([1, 2, 3])
  if rng.random() < 0.25:
    s['METRIC_CLIENT_IDLE_TIMEOUT'] = rng.choice([5, 30])
  ig.listener_knobs(rng, s)
  return {'daemon': 'cache', 'settings': s, 'files': {}}


def cfg_sig(cfg):
  s = cfg['settings']
  return 'maxlen=%s fc=%s maxconn=%s idle=%s log=%s%s' % (
    s.get('PICKLE_RECEIVER_MAX_LENGTH', 'default'), s.get('USE_FLOW_CONTROL'),
    s.get('MAX_RECEIVER_CONNECTIONS', 'inf'), s.get('METRIC_CLIENT_IDLE_TIMEOUT'),
    int(s['LOG_LISTENER_CONN_SUCCESS']), int(s['LOG_LISTENER_CONN_LOST']))


def gen_plan(rng, cfg, tier):
  clients = []
  nline, npickle, nudp = rng.randint(0, 3), rng.randint(0, 2), rng.randint(0, 2)
  if nline + npickle + nudp == 0:
    nline = 1
  big = 12 if tier == 'quick' else 30
  for _ in range(nline):
    clients.append(ig.build_tcp_client(rng, 'line', rng.randint(1, big), 0.0))
  for _ in range(npickle):
    c = ig.build_tcp_client(rng, 'pickle', rng.randint(1, big // 2), 0.0)
    mx = cfg['settings'].get('PICKLE_RECEIVER_MAX_LENGTH', 2 ** 20)
    if any(it['end'] - it['start'] - 4 > mx for it in c['items']):
      c = ig.build_tcp_client(rng, 'pickle', 1, 0.0)
    clients.append(c)
  for _ in range(nudp):
    clients.append(ig.build_udp_client(rng, rng.randint(1, 6), 0.0))
  extra = []
  for _ in range(rng.choice([0, 0, 1, 2])):
    extra.append(rng.choice([['cachefull'], ['cachefull'], ['cachespace'], ['advance', 4.0], ['advance', 29.0]]))
  if rng.random() < 0.15:
    extra.append(['walljump', rng.choice([3600.0, 45.0, -45.0, -3600.0])])
  plan = {'prop': PROP, 'clients': clients, 'steps': ig.gen_steps(rng, clients, extra)}
  plan['late_connect'] = rng.random() < 0.6
  plan['finish_reset'] = [i for i in range(len(clients)) if rng.random() < 0.25]
  return plan


def nontrivial(res):
  p = res.get('probes', {})
  return any(k.startswith('split_') for k in p) or 'segment_held_by_pause' in p
