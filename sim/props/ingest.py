"""Generators for world A (C01 C11 C12): client streams, segmentation schedules,
malformed frames built by construction, list files."""
import pickle
import struct

from .. import boot as simboot
from ..world_ingest import IngestWorld

NAME_CHARS = ['a', 'b', 'z', 'A', '0', '9', '.', '_', '-', ';', '=', '/', '{', '}', '"', '\x00', '\x7f',
              'é', 'ß', 'µ', '中', '€', '😀', '\U0001F600', '~', '*', '[', '(', '\\', '%', '#', ':']


def gen_name(rng, alphabet=None):
  n = rng.choice([1, 2, 3, 5, 8, 20])
  chars = alphabet or NAME_CHARS
  s = ''.join(rng.choice(chars) for _ in range(n))
  if any(ch.isspace() for ch in s) or not s:
    s = 'm'
  return s


def gen_ts(rng):
  r = rng.random()
  if r < 0.5:
    return float(rng.randint(0, 2000000000))
  if r < 0.7:
    return rng.randint(0, 2000000000) + rng.choice([0.5, 0.25, 0.999])
  if r < 0.85:
    return float(rng.choice([0, 1, 2 ** 31, 2 ** 32, 2 ** 32 + 1, 2 ** 40]))
  return float(rng.randint(0, 100))


def gen_value(rng):
  r = rng.random()
  if r < 0.4:
    return rng.uniform(-1000, 1000)
  if r < 0.55:
    return rng.choice([0.0, -0.0, 1.0, -1.0, float('inf'), float('-inf'), 1e308, -1e308, 5e-324, 1e-12,
                       2.2250738585072014e-308, 123456789.123456789])
  if r < 0.8:
    return rng.randint(-10 ** 6, 10 ** 6)
  if r < 0.9:
    return rng.choice([2 ** 53 + 1, 2 ** 63 - 1, -2 ** 63, 10 ** 18])
  return struct.unpack('!d', struct.pack('!Q', rng.getrandbits(64)))[0]


def good_dp(rng, names=None):
  v = gen_value(rng)
  while isinstance(v, float) and v != v:
    v = gen_value(rng)
  m = rng.choice(names) if names else gen_name(rng)
  return [m, gen_ts(rng), v]


def line_bytes(dp):
  m, ts, v = dp
  return ('%s %s %s\n' % (m, repr(v) if isinstance(v, float) else '%d' % v, repr(ts))).encode('utf-8')


def pickle_frame(entries, proto):
  body = pickle.dumps(entries, protocol=proto)
  return struct.pack('!I', len(body)) + body


def py2_pickle_frame(entries):
  """What a Python 2 client's cPickle.dumps(list, protocol=2) puts on the wire:
  metric names are *byte* strings (SHORT_BINSTRING), numbers BINFLOAT."""
  out = [b'\x80\x02]', b'(']
  for name, (ts, v) in entries:
    nb = name.encode('utf-8')
    if len(nb) < 256:
      out.append(b'U' + bytes([len(nb)]) + nb)
    else:
      out.append(b'T' + struct.pack('<i', len(nb)) + nb)
    out.append(b'G' + struct.pack('>d', float(ts)))
    out.append(b'G' + struct.pack('>d', float(v)))
    out.append(b'\x86\x86')
  out.append(b'e.')
  body = b''.join(out)
  return struct.pack('!I', len(body)) + body


# ---- malformed items, built by construction ---------------------------------
def bad_line(rng):
  k = rng.randrange(17)
  if k == 15:
    # four fields once the line is split as *text*: the separator is a non-ASCII or
    # control whitespace character
    # (characters that str.splitlines() treats as line boundaries are avoided: inside a
    # datagram they would legitimately start a new line)
    sep = rng.choice(['\u00a0', '\x1f', '\u2003', '\u3000'])
    return ('bad%sname 2 200\n' % sep).encode('utf-8')
  if k == 16:
    sep = rng.choice(['\u00a0', '\x1f', '\u2003'])
    return ('m 1%s5 200\n' % sep).encode('utf-8')
  if k == 12:
    return b'\xff' * rng.choice([401, 600, 3000]) + b' 1 2\n'       # long and undecodable
  if k == 13:
    return b'word ' * rng.choice([90, 500]) + b'\n'                  # long, too many fields
  if k == 14:
    return ('µ' * 450).encode('utf-8')[:-1] + b' 1 2\n'              # long, cut inside a character
  if k == 0:
    return b'\xff\xfe 1 2\n'
  if k == 1:
    return 'café'.encode('utf-8')[:-1] + b' 1 2\n'       # truncated UTF-8 sequence
  if k == 2:
    return b'onlyname\n'
  if k == 3:
    return b'name 1\n'
  if k == 4:
    return b'a b c d\n'
  if k == 5:
    return b'a 1 2 3 4\n'
  if k == 6:
    return b'\n'
  if k == 7:
    return b'   \t \n'
  if k == 8:
    return b'm abc 123\n'
  if k == 9:
    return b'm 1 12x\n'
  if k == 10:
    return ('m 1 %s\n' % rng.choice(['nan', 'inf', '-inf', 'NaN'])).encode()
  return b'm \xc3\x28 5\n'


class _Shape(object):
  pass


def bad_pickle_body(rng):
  """-> (body bytes, list of expected dps-or-None)"""
  k = rng.randrange(14)
  good = [('ok.%d' % rng.randrange(100), (float(rng.randrange(1000)), float(rng.randrange(100))))
          for _ in range(rng.randint(1, 3))]
  p = rng.choice([0, 1, 2, 3, 4, 5])
  if k == 0:
    body = pickle.dumps(good, protocol=p)
    return body[:rng.randrange(1, len(body))], []
  if k == 1:
    return bytes(rng.getrandbits(8) for _ in range(rng.randint(1, 40))), []
  if k == 2:
    return pickle.dumps(rng.choice([5, None, 1.5, True]), protocol=p), []
  if k == 3:
    # a dict / str payload: iterating yields keys / characters, none a valid entry
    return pickle.dumps(rng.choice([{'a': 1}, 'xyz', {'m': (1, 2)}]), protocol=p), []
  if k == 4:
    bad = rng.choice([('m',), ('m', (1, 2, 3)), ('m', 5), 7, None, ('m', (1,)), [], ('m', None)])
    entries = [good[0], bad] + good[1:]
    exp = [[good[0][0], good[0][1][0], good[0][1][1]], None] + [[g[0], g[1][0], g[1][1]] for g in good[1:]]
    return pickle.dumps(entries, protocol=p), exp
  if k == 5:
    bad = (rng.choice([b'bytesname', 5, None, 1.5, ('t',)]), (1.0, 2.0))
    entries = [bad] + good
    if isinstance(bad[0], bytes):
      p = max(p, 3)      # protocols < 3 pickle bytes through the _codecs.encode global
    return pickle.dumps(entries, protocol=p), [None] + [[g[0], g[1][0], g[1][1]] for g in good]
  if k == 6:
    bad = ('m', rng.choice([('abc', 1.0), (1.0, 'x'), (None, 1.0), (1.0, None), ([1], 2.0)]))
    entries = good + [bad]
    return pickle.dumps(entries, protocol=p), [[g[0], g[1][0], g[1][1]] for g in good] + [None]
  if k == 7:
    bad = ('m', rng.choice([(10 ** 400, 1.0), (1.0, 10 ** 400), (-10 ** 400, 2.0)]))
    entries = [bad] + good
    return pickle.dumps(entries, protocol=p), [None] + [[g[0], g[1][0], g[1][1]] for g in good]
  if k == 8:
    bad = ('m', rng.choice([(float('nan'), 1.0), (float('inf'), 1.0), (float('-inf'), 1.0)]))
    entries = good + [bad]
    return pickle.dumps(entries, protocol=p), [[g[0], g[1][0], g[1][1]] for g in good] + [None]
  if k == 9:
    # references a global that is not on the allow-list (harmless: os.getcwd, never called)
    return b'cos\ngetcwd\n.', []
  if k == 10:
    # REDUCE on a non-callable / inert object
    return rng.choice([b'(I1\nI2\ntR.', b'NNR.', b'(lN\x85R.', b']N\x85R.', b'I1\n(tR.']), []
  if k == 11:
    # random opcode soup over inert opcodes only
    ops = [b'N', b'(', b't', b'l', b']', b'}', b'I1\n', b'F1.5\n', b'K\x01', b'a', b'e', b's', b'0', b'2',
           b'\x85', b'\x86', b'.', b'J\x01\x00\x00\x00', b'q\x00', b'h\x00',
           b'\x80\x02', b'1', b'd', b'u']
    return b''.join(rng.choice(ops) for _ in range(rng.randint(1, 25))) + b'.', []
  if k == 12:
    return b'', []
  # valid pickle of a generator-like nesting: list of lists of entries (wrong nesting)
  return pickle.dumps([good], protocol=p), [None]


def build_tcp_client(rng, kind, nitems, bad_rate, names=None, allow_close=False, maxlen=None):
  stream = b''
  items = []
  for i in range(nitems):
    start = len(stream)
    if kind == 'line':
      if rng.random() < bad_rate:
        if allow_close and rng.random() < 0.08 and i == nitems - 1:
          data = b'x' * 16500 + b' 1 2\n'
          stream += data
          items.append({'start': start, 'end': start + 16385, 'dps': [], 'close': True})
          continue
        data = bad_line(rng)
        dps = []
      else:
        k = rng.choice([1, 1, 1, 2, 4])
        ds = [good_dp(rng, names) for _ in range(k)]
        data = b''.join(line_bytes(d) for d in ds)
        dps = ds
      stream += data
      # every line is its own item so that per-chunk expectations are exact
      off = start
      if dps:
        for d in dps:
          off += len(line_bytes(d))
          items.append({'start': off - len(line_bytes(d)), 'end': off, 'dps': [d]})
      else:
        items.append({'start': start, 'end': len(stream), 'dps': []})
    else:
      if rng.random() < bad_rate:
        if allow_close and rng.random() < 0.08 and i == nitems - 1:
          stream += struct.pack('!I', (maxlen or 2 ** 20) + 1 + rng.randrange(1000))
          items.append({'start': start, 'end': start + 4, 'dps': [], 'close': True})
          stream += b'trailing garbage'
          continue
        body, exp = bad_pickle_body(rng)
        stream += struct.pack('!I', len(body)) + body
        items.append({'start': start, 'end': len(stream), 'dps': exp})
      else:
        k = rng.choice([0, 1, 1, 2, 5, 12])
        ds = [good_dp(rng, names) for _ in range(k)]
        if ds and rng.random() < 0.25:
          stream += py2_pickle_frame([(d[0], (d[1], d[2])) for d in ds])
        else:
          stream += pickle_frame([(d[0], (d[1], d[2])) for d in ds], rng.choice([0, 1, 2, 3, 4, 5]))
        items.append({'start': start, 'end': len(stream), 'dps': ds})
  return {'kind': kind, 'stream': stream, 'items': items}


def build_udp_client(rng, ndgrams, bad_rate, names=None):
  dgrams = []
  for _ in range(ndgrams):
    data = b''
    dps = []
    for _ in range(rng.choice([1, 1, 2, 3, 6])):
      if rng.random() < bad_rate:
        data += bad_line(rng)
        dps.append(None)
      else:
        d = good_dp(rng, names)
        data += line_bytes(d)
        dps.append(d)
    if rng.random() < 0.2 and data.endswith(b'\n'):
      data = data[:-1]          # last line without newline is still a line
    dgrams.append({'data': data, 'dps': dps})
  return {'kind': 'udp', 'dgrams': dgrams}


def gen_steps(rng, clients, extra_ops=None):
  """Segmentation schedule: cut positions biased to land inside multi-byte
  characters, inside the 4-byte length prefix, 1-byte runs, coalesced frames."""
  steps = []
  remaining = []
  for ci, c in enumerate(clients):
    if c['kind'] == 'udp':
      order = list(range(len(c['dgrams'])))
      out = []
      for k in order:
        r = rng.random()
        if r < 0.1:
          continue                      # dropped
        out.append(k)
        if r > 0.9:
          out.append(k)                 # duplicated
      if rng.random() < 0.4:
        rng.shuffle(out)                # reordered
      remaining.append([['dgram', ci, k] for k in out])
    else:
      mode = rng.choice(['bytes1', 'small', 'mixed', 'whole', 'frames', 'boundary'])
      n = len(c['stream'])
      segs = []
      pos = 0
      cuts = set()
      if mode == 'boundary':
        for it in c['items']:
          for d in (1, 2, 3, 4):
            if rng.random() < 0.5:
              cuts.add(it['start'] + d)
          if rng.random() < 0.5:
            cuts.add(it['end'])
        for i, b in enumerate(c['stream']):
          if 0x80 <= b < 0xC0 and rng.random() < 0.5:
            cuts.add(i)
      while pos < n:
        if mode == 'bytes1':
          k = 1
        elif mode == 'small':
          k = rng.randint(1, 4)
        elif mode == 'whole':
          k = n
        elif mode == 'frames':
          nxt = [it['end'] for it in c['items'] if it['end'] > pos]
          k = (rng.choice(nxt[:3]) - pos) if nxt else n - pos
        elif mode == 'boundary':
          nxt = sorted(x for x in cuts if x > pos)
          k = (nxt[0] - pos) if nxt else n - pos
        else:
          k = rng.choice([1, 2, 3, 7, 16, 64, 500])
        k = max(1, min(k, n - pos))
        segs.append(['seg', ci, k])
        pos += k
        if len(segs) > 400:
          segs.append(['seg', ci, n - pos])
          break
      remaining.append(segs)
  # interleave the per-client sequences
  extra = list(extra_ops or [])
  while any(remaining) or extra:
    choices = [i for i, q in enumerate(remaining) if q]
    if extra and (not choices or rng.random() < 0.1):
      steps.append(extra.pop(0))
      continue
    i = rng.choice(choices)
    steps.append(remaining[i].pop(0))
    r = rng.random()
    if r < 0.03:
      steps.append(['pause'])
    elif r > 0.96:
      # the pause is raised by the pipeline while a chunk is being processed
      steps.append(['pause_at', rng.choice([1, 1, 2, 3, 5])])
    elif r < 0.08:
      steps.append(['resume'])
    elif r < 0.1:
      steps.append(['advance', rng.choice([0.0, 0.5, 3.0])])
  return steps


def listener_knobs(rng, s, limits=False):
  """Settings every listener run varies: what is logged about connections (the log
  statements sit on the connection's code path) and, optionally, the connection limit
  and the idle timeout."""
  s['LOG_LISTENER_CONN_SUCCESS'] = rng.random() < 0.5
  s['LOG_LISTENER_CONN_LOST'] = rng.random() < 0.5
  if limits:
    if rng.random() < 0.25:
      s['MAX_RECEIVER_CONNECTIONS'] = rng.choice([1, 2, 3])
    if rng.random() < 0.25:
      s['METRIC_CLIENT_IDLE_TIMEOUT'] = rng.choice([5, 30])
  return s


def boot(cfg):
  return simboot.boot(cfg, use_threads=False)


def execute(w, plan, ctx, finish):
  from ..core import unbytes
  w.reactor.ctx = ctx
  plan = unbytes(plan)
  IngestWorld(w, plan, ctx, finish).run()


SHRINK_LISTS = ['steps']
SHRINK_DICTS = []


def shrink_plan(plan):
  """Candidate simplifications beyond dropping steps: remove a whole client, cut a
  client's stream after half / all but the last of its items, drop a datagram."""
  import copy
  from ..core import unbytes
  plan = unbytes(plan)
  clients = plan['clients']
  if len(clients) > 1:
    for i in range(len(clients)):
      p = copy.deepcopy(plan)
      del p['clients'][i]
      steps = []
      for st in p['steps']:
        if st[0] in ('seg', 'dgram'):
          ci = st[1] % len(clients)
          if ci == i:
            continue
          st = [st[0], ci - (1 if ci > i else 0)] + list(st[2:])
        steps.append(st)
      p['steps'] = steps
      yield p
  for i, c in enumerate(clients):
    if c['kind'] == 'udp':
      for k in range(len(c['dgrams'])):
        if len(c['dgrams']) > 1:
          p = copy.deepcopy(plan)
          del p['clients'][i]['dgrams'][k]
          p['steps'] = [st for st in p['steps']
                        if not (st[0] == 'dgram' and st[1] % len(clients) == i and st[2] >= len(c['dgrams']) - 1)]
          yield p
      continue
    items = c['items']
    if len(items) > 1:
      for keep in (len(items) // 2, len(items) - 1):
        if keep < 1:
          continue
        p = copy.deepcopy(plan)
        end = items[keep - 1]['end']
        p['clients'][i]['items'] = items[:keep]
        p['clients'][i]['stream'] = c['stream'][:end]
        yield p
      # drop the first item (shift offsets)
      p = copy.deepcopy(plan)
      off = items[0]['end']
      p['clients'][i]['stream'] = c['stream'][off:]
      p['clients'][i]['items'] = [dict(it, start=it['start'] - off, end=it['end'] - off) for it in items[1:]]
      yield p
