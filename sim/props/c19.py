"""C19 -- new metrics get the first matching storage schema and aggregation policy.

The create path runs inside the real writer loop (world B): creates fail and are
retried on a later pass, schema files are rewritten and picked up by the 60 s
reload LoopingCall while the writer is mid-pass.  Oracle: arguments of every
simdb.create() equal a reference evaluator applied to the file contents in force.
"""
from . import cacheworld as cw

PROP = 'C19'
PROFILE = 'c19'
QUICK = (320, 30, 60.0)
THOROUGH = (2400, 50, 840.0)
boot, execute, cfg_sig, nontrivial = cw.boot, cw.execute, cw.cfg_sig, cw.nontrivial
SHRINK_LISTS, SHRINK_DICTS = cw.SHRINK_LISTS, cw.SHRINK_DICTS

PATTERNS = ['^m0', 'm[01]', r'\.cpu$', '.*', r'^sys\.', 'x$', '^carbon\\.', 'mem', '^$', 'm0\\.cpu']
RETENTIONS = ['10s:1h', '60:1440', '1m:7d,15m:5y', '5:100', '1h:1w', '1d:1y', '7s:1m', '1s:1d,1m:1w,1h:2y',
              '30:2h', '2m:90m', '7:7', '1w:10y']
NAMES = ['m0', 'm1', 'm2', 'm0.cpu', 'sys.cpu', 'sys.mem', 'x', 'foo.x', 'zzz', 'carbon.agents.x', 'mem.m1']
METHODS = ['average', 'sum', 'last', 'max', 'min']


def gen_schemas(rng):
  n = rng.randint(1, 6)
  lines = []
  for i in range(n):
    lines.append('[s%d]' % i)
    r = rng.random()
    if r > 0.12:
      lines.append('pattern = %s' % rng.choice(PATTERNS))
    if r < 0.88 or r > 0.94:
      lines.append('retentions = %s' % rng.choice(RETENTIONS))
    if rng.random() < 0.2:
      lines.append('# comment')
    lines.append('')
  return '\n'.join(lines) + '\n'


def gen_aggregation(rng):
  n = rng.randint(0, 5)
  lines = []
  for i in range(n):
    lines.append('[a%d]' % i)
    if rng.random() > 0.15:
      lines.append('pattern = %s' % rng.choice(PATTERNS))
    if rng.random() < 0.8:
      lines.append('xFilesFactor = %s' % rng.choice(['0', '0.1', '0.5', '1', '0.25']))
    if rng.random() < 0.8:
      lines.append('aggregationMethod = %s' % rng.choice(METHODS))
    lines.append('')
  return '\n'.join(lines) + '\n'


def gen_schema_files(rng):
  return {'storage-schemas.conf': gen_schemas(rng),
          'storage-aggregation.conf': gen_aggregation(rng)}


def metric_names(rng, cfg):
  return rng.sample(NAMES, rng.randint(2, 6))


BROKEN = [
  'this line comes before any section header\n[s0]\npattern = .*\nretentions = 60:1440\n',
  '[dup]\npattern = ^a\nretentions = 60:1440\n\n[dup]\npattern = ^b\nretentions = 10:100\n',
  '[s0]\npattern = (unclosed\nretentions = 60:1440\n',
  '[s0\npattern = .*\nretentions = 60:1440\n',
]


def gen_schema_op(rng, cfg):
  r = rng.random()
  if r < 0.15:
    # a file the parser cannot read: the reload must fail without touching the schemas
    # in force, and a later repaired file must be picked up
    return ['schema', rng.choice(['storage-schemas.conf', 'storage-aggregation.conf']), rng.choice(BROKEN)]
  if r < 0.25:
    # the file is gone for a while (a non-atomic replacement, a botched deployment)
    return ['schema', rng.choice(['storage-schemas.conf', 'storage-aggregation.conf']), None]
  # how the new content comes to carry its modification time: written now; written within
  # the same clock tick as the previous version; an older file moved into place
  stamp = rng.choice(['now', 'now', 'now', 'same', 'old'])
  if rng.random() < 0.6:
    return ['schema', 'storage-schemas.conf', gen_schemas(rng), stamp]
  return ['schema', 'storage-aggregation.conf', gen_aggregation(rng), stamp]


def gen_config(rng, tier):
  return cw.gen_config(rng, tier, PROFILE)


def gen_plan(rng, cfg, tier):
  return cw.gen_plan(rng, cfg, tier, PROFILE)
