"""C17 -- every write strategy drains consistently, completely, without starvation."""
from . import cacheworld as cw

PROP = 'C17'
PROFILE = 'c17'
QUICK = (288, 60, 60.0)
THOROUGH = (1200, 100, 840.0)
boot, execute, cfg_sig, nontrivial = cw.boot, cw.execute, cw.cfg_sig, cw.nontrivial
SHRINK_LISTS, SHRINK_DICTS = cw.SHRINK_LISTS, cw.SHRINK_DICTS


def gen_config(rng, tier):
  return cw.gen_config(rng, tier, PROFILE)


def gen_plan(rng, cfg, tier):
  return cw.gen_plan(rng, cfg, tier, PROFILE)
