"""Configuration / plan generators for world C (carbon-relay):
C05 C06 C07 C09-relay C15 C16."""
import struct

from .. import boot as simboot
from ..world_relay import RelayWorld

HOSTS = ['10.0.0.1', '10.0.0.2', '10.0.0.3', '10.0.0.4']
INSTANCES = ['a', 'b', 'c', None]


def boot(cfg):
  return simboot.boot(cfg, use_threads=False)


def execute(w, plan, ctx, finish):
  w.reactor.ctx = ctx
  RelayWorld(w, plan, ctx, finish).run()


# pairs of (server, instance) whose node hash -- what fast-hashing sorts its members by --
# is identical (found by brute force with the reference hash)
COLLIDING_NODES = {
  'carbon_ch': [(('10.0.4.9', 'a'), ('10.0.7.9', 'b')), (('10.0.2.1', None), ('10.0.8.15', 'b')),
                (('10.0.6.5', 'a'), ('10.0.14.12', 'b'))],
  'fnv1a_ch': [(('10.0.7.8', None), ('10.0.8.2', 'b')), (('10.0.7.5', 'a'), ('10.0.10.2', 'a')),
               (('10.0.8.9', 'b'), ('10.0.13.3', 'a'))],
}


def gen_destinations(rng, n, collide=False, node_collision=None):
  out = []
  seen = set()
  tries = 0
  if node_collision and n >= 2:
    for (h, inst) in rng.choice(COLLIDING_NODES[node_collision]):
      seen.add((h, inst))
      out.append((h, 2004 + 100 * len(out), inst))
  while len(out) < n and tries < 200:
    tries += 1
    h = rng.choice(HOSTS)
    inst = rng.choice(INSTANCES if not collide else ['a', 'a', 'b'])
    if (h, inst) in seen:
      continue
    seen.add((h, inst))
    out.append((h, 2004 + 100 * len(out), inst))
  return out


def dest_str(d):
  return '%s:%d' % (d[0], d[1]) + (':%s' % d[2] if d[2] is not None else '')


AGG_RULES = [
  '<env>.app.all.req (10) = sum <env>.app.*.req',
  '<env>.app.all.lat (60) = avg <env>.app.*.lat',
  'web.all.req (5) = sum web.*.req',
  'sys.<what>.total (10) = max sys.<what>.*',
  'roll.<rest> (30) = count x.<<rest>>',
  'w<n>.sum (10) = sum web.<n>.req',
]
# same input patterns, other aggregate names: a reload must re-map the inputs
AGG_RULES_ALT = [
  '<env>.app.total.req (10) = sum <env>.app.*.req',
  'web.sum.req (5) = sum web.*.req',
  'sys.<what>.peak (10) = max sys.<what>.*',
  'rolled.<rest> (30) = count x.<<rest>>',
]
RULE_PATTERNS = ['^a\\.', 'cpu', '^sys\\.', 'req$', '^web\\.[0-9]', '^prod', 'zzz', '.*', '\\.app\\.', '^$']


def gen_relay_rules(rng, dests):
  n = rng.randint(1, 6)
  secs = []
  for i in range(n):
    sub = rng.sample(dests, rng.randint(1, len(dests)))
    if rng.random() < 0.15:
      sub = sub + [rng.choice(sub)]       # a destination listed twice (legal)
    lines = ['[r%d]' % i, 'pattern = %s' % rng.choice(RULE_PATTERNS),
             'destinations = %s' % ', '.join(dest_str(d) for d in sub)]
    if rng.random() < 0.5:
      lines.append('continue = %s' % rng.choice(['true', 'false', 'True', 'yes', 'no']))
    secs.append('\n'.join(lines))
  sub = rng.sample(dests, rng.randint(1, len(dests)))
  default = '\n'.join(['[default]', 'default = true', 'destinations = %s' % ', '.join(dest_str(d) for d in sub)])
  secs.insert(rng.randint(0, len(secs)), default)
  return '\n\n'.join(secs) + '\n'


def gen_config(rng, tier, profile):
  s = {}
  if profile in ('c05', 'c06'):
    method = rng.choice(['consistent-hashing', 'consistent-hashing', 'fast-hashing',
                         'aggregated-consistent-hashing'])
    if profile == 'c06':
      method = rng.choice(['consistent-hashing', 'consistent-hashing', 'aggregated-consistent-hashing'])
  elif profile == 'c16':
    method = rng.choice(['rules', 'rules', 'aggregated-consistent-hashing', 'fast-aggregated-hashing'])
  else:
    method = rng.choice(['consistent-hashing', 'consistent-hashing', 'rules', 'fast-hashing'])
  s['RELAY_METHOD'] = method
  nd = rng.randint(1, 4) if profile in ('c07', 'c09', 'c15') else rng.randint(1, 8)
  if profile == 'c09':
    nd = rng.choice([1, 2, 3, 3, 4])
  ht = rng.choice(['carbon_ch', 'fnv1a_ch'])
  dests = gen_destinations(rng, nd, collide=(profile == 'c06' and rng.random() < 0.5),
                           node_collision=(ht if (profile in ('c05', 'c16') and 'fast' in method
                                                  and rng.random() < 0.5) else None))
  s['DESTINATIONS'] = [dest_str(d) for d in dests]
  s['ROUTER_HASH_TYPE'] = ht
  s['REPLICATION_FACTOR'] = rng.choice([1, 1, 2, 3, 4]) if profile in ('c05', 'c06', 'c16') else rng.choice([1, 1, 2])
  s['DIVERSE_REPLICAS'] = rng.random() < 0.5
  s['DYNAMIC_ROUTER'] = rng.random() < (0.6 if profile in ('c05', 'c06', 'c16') else 0.4)
  s['DYNAMIC_ROUTER_MAX_RETRIES'] = rng.choice([0, 1, 2, 3])
  if profile == 'c09':
    s['DYNAMIC_ROUTER'] = rng.random() < 0.6
    s['DYNAMIC_ROUTER_MAX_RETRIES'] = rng.choice([0, 1, 1, 2])
  s['USE_FLOW_CONTROL'] = True if profile == 'c09' else rng.random() < 0.6
  s['MAX_QUEUE_SIZE'] = rng.choice([2, 3, 4, 5, 8, 10, 20, 40, 50]) if profile != 'c15' else rng.choice([50, 500])
  s['MAX_DATAPOINTS_PER_MESSAGE'] = rng.choice([1, 2, 3, 5, 10, 60, 500])
  s['QUEUE_LOW_WATERMARK_PCT'] = rng.choice([0.1, 0.25, 0.5, 0.8, 0.8, 1.0])
  s['MAX_QUEUE_SIZE_HARD_PCT'] = rng.choice([1.25, 1.25, 1.5, 2.0, 1.0])
  s['DESTINATION_PROTOCOL'] = rng.choice(['pickle', 'pickle', 'line'])
  s['TIME_TO_DEFER_SENDING'] = rng.choice([0.0001, 0.0001, 0.01, 0.5, 0])
  if profile == 'c07' and rng.random() < 0.05:
    # a long-unreachable destination: a backlog several hundred batches deep
    s['MAX_QUEUE_SIZE'] = 2000
    s['MAX_DATAPOINTS_PER_MESSAGE'] = rng.choice([1, 2])
    s['TIME_TO_DEFER_SENDING'] = rng.choice([0, 0, 0.0001])
    s['DYNAMIC_ROUTER'] = False
    s['deep_backlog'] = True
  if profile == 'c15' and rng.random() < 0.025:
    # an outage builds a backlog that then leaves in one message of a few hundred KB
    s['MAX_QUEUE_SIZE'] = 6000
    s['MAX_DATAPOINTS_PER_MESSAGE'] = 5000
    s['DESTINATION_PROTOCOL'] = 'pickle'
    s['DYNAMIC_ROUTER'] = False
    s['deep_backlog'] = 'big'
  if profile in ('c07', 'c15', 'c09') and not s.get('deep_backlog') \
      and rng.random() < (0.3 if profile != 'c09' else 0.2):
    # connection-quality resets: the relay compares what a destination was sent with
    # what was received over the last instrumentation interval
    s['CARBON_METRIC_INTERVAL'] = rng.choice([2, 5, 10])
    s['USE_RATIO_RESET'] = True
    s['MIN_RESET_STAT_FLOW'] = rng.choice([1, 3])
    s['MIN_RESET_RATIO'] = rng.choice([0.5, 0.9])
    s['MIN_RESET_INTERVAL'] = rng.choice([0, 1, 5])
  if profile == 'c16' and 'aggregated' in method:
    # the per-rule cache of resolved names: none (default), LRU, or entries that expire
    r = rng.random()
    if r < 0.2:
      s['CACHE_METRIC_NAMES_MAX'] = rng.choice([1, 2, 100])
    elif r < 0.5:
      s['CACHE_METRIC_NAMES_MAX'] = rng.choice([2, 100])
      s['CACHE_METRIC_NAMES_TTL'] = rng.choice([1, 30])
  files = {'relay-rules.conf': gen_relay_rules(rng, dests),
           'aggregation-rules.conf': '\n'.join(rng.sample(AGG_RULES, rng.randint(1, len(AGG_RULES)))) + '\n'}
  if profile == 'c16' and 'aggregated' in method and rng.random() < 0.15:
    files['aggregation-rules.conf'] = None      # not deployed yet when the relay starts
  return {'daemon': 'relay', 'settings': s, 'files': files, 'profile': profile}


def cfg_sig(cfg):
  s = cfg['settings']
  return '%s/%s/n=%d/rf=%s/div=%s/dyn=%s(%s)/q=%s/b=%s/lw=%s/hard=%s/%s/fc=%s' % (
    s['RELAY_METHOD'], s['ROUTER_HASH_TYPE'], len(s['DESTINATIONS']), s['REPLICATION_FACTOR'],
    s['DIVERSE_REPLICAS'], s['DYNAMIC_ROUTER'], s['DYNAMIC_ROUTER_MAX_RETRIES'], s['MAX_QUEUE_SIZE'],
    s['MAX_DATAPOINTS_PER_MESSAGE'], s['QUEUE_LOW_WATERMARK_PCT'], s['MAX_QUEUE_SIZE_HARD_PCT'],
    s['DESTINATION_PROTOCOL'], s['USE_FLOW_CONTROL'])


def rich_value(rng):
  r = rng.random()
  if r < 0.3:
    return struct.unpack('!d', struct.pack('!Q', rng.getrandbits(64)))[0]
  if r < 0.6:
    return rng.choice([1e-12, 1e308, -1e308, 5e-324, 0.1, 1.0 / 3, 123456.789012345, float('inf'), float('-inf'),
                       -0.0, 0.0, 1e15 + 0.3, 2.5e-11, 4.9e-11, 99999.99999999999])
  if r < 0.8:
    return rng.randint(-2 ** 63, 2 ** 63 - 1)
  return rng.uniform(-1e6, 1e6)


NAME_POOL = ['a.b', 'a.cpu', 'sys.cpu.0', 'sys.mem.x', 'web.1.req', 'web.2.req', 'prod.app.w1.req', 'prod.app.w2.req',
             'dev.app.w1.lat', 'x.q.r.s', 'zzz', 'é.µ', 'q;t=1', 'prod.app.all.req']


def gen_plan(rng, cfg, tier, profile):
  s = cfg['settings']
  nd = len(s['DESTINATIONS'])
  plan = {'prop': profile.upper(), 'profile': profile}
  ops = []
  counter = [0]

  def dp():
    counter[0] += 1
    i = counter[0]
    if profile == 'c15':
      v = rich_value(rng)
      while isinstance(v, float) and v != v:
        v = rich_value(rng)
      ts = rng.choice([float(rng.randint(0, 2 ** 32 - 1)), rng.randint(0, 2 ** 32 - 1) + 0.5,
                       float(rng.randint(0, 100))])
      from .ingest import gen_name
      name = gen_name(rng) + '.%d' % i
      return name, (ts, v)
    if profile in ('c05', 'c06', 'c16'):
      return rng.choice(NAME_POOL), (1000000.0 + i, float(i))
    if small_pool:
      return rng.choice(small_pool), (1000000.0 + i, float(i))
    return 'n%d.%s' % (i, rng.choice(['a', 'b', 'c'])), (1000000.0 + i, float(i))

  # C09: concentrate traffic on a few keys so that one destination's queue fills
  # while the others stay below their watermark
  small_pool = None
  if profile == 'c09' and rng.random() < 0.6:
    small_pool = ['hot%d' % rng.randrange(40) for _ in range(rng.randint(1, 3))]

  n = rng.randint(4, 40 if tier == 'quick' else 90)
  w = {'arrive': 10, 'chunk': 3, 'self': 1, 'conn_ok': 4, 'conn_refuse': 2, 'reset': 2, 'close': 1, 'stall': 2,
       'unstall': 2, 'read': 1, 'advance': 5, 'stopclient': 0}
  if profile == 'c09':
    w.update(arrive=6, chunk=8, stall=4, unstall=3, conn_refuse=3)
  if profile == 'c15':
    w.update(stall=1, reset=1, conn_refuse=1, self=0)
  if profile in ('c05', 'c06', 'c16'):
    w.update(conn_refuse=6, reset=4, conn_ok=6, advance=8, stopclient=1, chunk=0, self=0, stall=0, unstall=0,
             read=0, arrive=6)
  if profile == 'c16' and 'aggregated' in s['RELAY_METHOD']:
    w['rulesfile'] = 3
  kinds = [k for k, x in w.items() for _ in range(x)]
  # most plans let connections come up early so that there is traffic to disturb
  if rng.random() < 0.7:
    for i in range(nd):
      if rng.random() < 0.8:
        ops.append(['conn_ok', i])
  mq = s['MAX_QUEUE_SIZE']
  if s.get('deep_backlog') == 'big':
    ops = [['flood', rng.choice([2000, 2600]), 60]]     # nothing is connected yet: all of it queues up
    for i in range(nd):
      ops.append(['conn_ok', i])
    ops.append(['advance', 1.0])
  elif s.get('deep_backlog'):
    ops = [['flood', rng.choice([350, 500])]] + ops
  for _ in range(n):
    k = rng.choice(kinds)
    if k == 'arrive':
      m, d = dp()
      ops.append(['arrive', m, list(d)])
    elif k == 'chunk':
      k2 = rng.choice([1, 2, 3, mq, mq + 2, 2 * mq]) if profile == 'c09' else rng.choice([1, 2, 5])
      k2 = min(k2, 60)
      ops.append(['chunk', rng.randrange(2), [[m, list(d)] for m, d in (dp() for _ in range(k2))]])
    elif k == 'self':
      counter[0] += 1
      ops.append(['self', 'carbon.self.%d' % counter[0], [1000000.0, float(counter[0])]])
    elif k in ('conn_ok', 'conn_refuse', 'reset', 'close', 'stall', 'unstall', 'stopclient'):
      ops.append([k, rng.randrange(nd)])
    elif k == 'read':
      ops.append(['read', rng.randrange(nd), rng.choice([1, 10, 100, 1000])])
    elif k == 'advance':
      ops.append(['advance', rng.choice([0.0, 0.0001, 0.001, 0.02, 0.6, 1.0, 2.5, 6.0, 6.0, 31.0])])
    elif k == 'rulesfile':
      # the aggregation rules change under the running relay (re-read every 10 s)
      r = rng.random()
      if r < 0.25:
        # a non-atomic replacement: the file is gone when a reload tick fires, then back
        ops.append(['file', 'aggregation-rules.conf', None])
        ops.append(['advance', rng.choice([10.0, 10.0, 3.0, 21.0])])
      elif r < 0.45:
        # the next re-read of the file fails with an I/O error (at open / after one line)
        ops.append(['rules_fault', rng.choice(['open', 'iter', 'iter'])])
      if rng.random() < 0.12:
        # every rule removed (or commented out): from the next re-read on nothing is aggregated
        ops.append(['file', 'aggregation-rules.conf', rng.choice(['', '# no rules at present\n', '\n\n'])])
      else:
        ops.append(['file', 'aggregation-rules.conf',
                    '\n'.join(rng.sample(AGG_RULES + AGG_RULES_ALT, rng.randint(1, 5))) + '\n'])
      ops.append(['advance', rng.choice([10.0, 10.5, 12.0, 21.0])])
  if profile == 'c07' and rng.random() < 0.3:
    # an orderly stop, sometimes with traffic still arriving while connections close
    pos = len(ops) if rng.random() < 0.5 else rng.randint(len(ops) // 2, len(ops))
    tail = ops[pos:]
    ops = ops[:pos] + [['stop']]
    for op in tail[:6]:
      if op[0] in ('arrive', 'self', 'advance'):
        ops.append(op)
    ops.append(['advance', 1.0])
  plan['ops'] = ops
  if nd > 1 and rng.random() < (0.6 if profile == 'c09' else 0.35):
    plan['dead'] = [rng.randrange(nd)]       # this destination never comes back
  plan['nrecv'] = rng.randint(1, 2)
  plan['bufsize'] = rng.choice([16, 64, 256, 65536])
  plan['close_delay'] = rng.choice([0.0, 0.0, 0.00005, 0.001, 0.05])
  plan['jitter_seed'] = rng.randrange(1 << 30)
  plan['p_tie'] = rng.choice([0.0, 0.5, 0.9])
  if profile == 'c15' and rng.random() < 0.5:
    # the downstream daemon pauses its receivers while it stores its n-th datapoint
    plan['dn_pause'] = sorted(set(rng.randint(1, 60) for _ in range(rng.randint(1, 4))))
  if profile == 'c15' and rng.random() < 0.35:
    plan['dn_idle'] = rng.choice([2, 5, 5, 30])     # the downstream daemon's idle timeout
  if profile in ('c05', 'c06', 'c16'):
    plan['route_checks'] = True
    plan['route_check_every'] = rng.choice([1, 1, 1, 2, 3, 6])
    plan['stripe'] = rng.choice([211, 997, 4099])
    plan['stripe_off'] = rng.randrange(4099)
    plan['max_positions'] = 500 if tier == 'quick' else 3000
    if tier == 'thorough' and rng.random() < 0.02:
      plan['full_sweep'] = True
  return plan


SHRINK_LISTS = ['ops']
SHRINK_DICTS = []


def nontrivial(res):
  p = res.get('probes', {})
  return any(k in p for k in ('connection_made', 'membership_add', 'membership_remove'))
