"""One module per property: configuration and plan generators, oracle selection."""
