"""C08 -- aggregates are the rule function over exactly the values of their interval."""
from .. import boot as simboot
from ..world_agg import AggWorld

PROP = 'C08'
QUICK = (384, 60, 60.0)
THOROUGH = (1600, 100, 840.0)
SHRINK_LISTS = ['ops']
SHRINK_DICTS = []

METHODS = ['sum', 'avg', 'min', 'max', 'count', 'p50', 'p75', 'p80', 'p90', 'p95', 'p99', 'p999']
# (output template, input pattern) pairs in the documented language; output templates
# are pairwise distinct so that no two rules feed one aggregate series
TEMPLATES = [
  ('<env>.app.all.req', '<env>.app.*.req'),
  ('<env>.app.all.lat', '<env>.app.*.lat'),
  ('web.all.req', 'web.*.req'),
  ('sys.<what>.total', 'sys.<what>.*'),
  ('roll.<rest>', 'x.<<rest>>'),
  ('w<n>.sum', 'web.<n>.req'),
  ('pre.<a>', 'pfx*sfx.<a>'),
  ('deep.<e>.<m>', '<e>.svc.<<m>>'),
  ('host.<h>', 'srv-<h>.load'),
  ('lit.total', 'a.b.c'),
  ('self.agg', 'self.agg'),
]
NAMES = ['prod.app.w1.req', 'prod.app.w2.req', 'dev.app.w1.req', 'prod.app.w1.lat', 'prod.app.all.req',
         'web.1.req', 'web.2.req', 'web.all.req', 'web..req', 'web.1.req.x', 'xweb.1.req', 'web.1.reqs',
         'sys.cpu.0', 'sys.cpu.1', 'sys.mem.free', 'sys.cpu', 'sys.cpu.0.u',
         'x.a', 'x.a.b.c', 'x', 'x.', 'pfxsfx.k', 'pfx-mid-sfx.k', 'pfx.sfx.k', 'apfxsfx.k',
         'prod.svc.a', 'prod.svc.a.b', 'prod.svc', 'srv-h1.load', 'srv-.load', 'srv-h1.load.x',
         'a.b.c', 'a.b.c.d', 'za.b.c', 'self.agg', 'zzz', 'prod.app.w1.req ', 'prod.app..req',
         # one segment too many exactly where a <field> or * sits
         'prod.eu.app.w1.req', 'prod.app.w1.x.req', 'sys.cpu.x.0', 'sys.a.b.c', 'web.1.2.req', 'srv-h1.x.load',
         'prod.eu.svc.a', 'pfx.mid.sfx.k']
NAMES = [n for n in NAMES if ' ' not in n]
MATCHING = {
  '<env>.app.*.req': ['prod.app.w1.req', 'prod.app.w2.req', 'dev.app.w1.req', 'prod.app.all.req'],
  '<env>.app.*.lat': ['prod.app.w1.lat', 'dev.app.w9.lat'],
  'web.*.req': ['web.1.req', 'web.2.req', 'web.all.req'],
  'sys.<what>.*': ['sys.cpu.0', 'sys.cpu.1', 'sys.mem.free', 'sys.cpu.total'],
  'x.<<rest>>': ['x.a', 'x.a.b.c'],
  'web.<n>.req': ['web.1.req', 'web.2.req'],
  'pfx*sfx.<a>': ['pfxsfx.k', 'pfx-mid-sfx.k'],
  '<e>.svc.<<m>>': ['prod.svc.a', 'prod.svc.a.b'],
  'srv-<h>.load': ['srv-h1.load', 'srv-h2.load'],
  'a.b.c': ['a.b.c'],
  'self.agg': ['self.agg'],
}


def gen_config(rng, tier):
  k = rng.randint(1, 5)
  picks = rng.sample(TEMPLATES, k)
  lines = []
  for out, pat in picks:
    lines.append('%s (%d) = %s %s' % (out, rng.choice([1, 2, 5, 10, 10, 30, 60]), rng.choice(METHODS), pat))
  if rng.random() < 0.3:
    lines.insert(0, '# generated')
    lines.append('')
  s = {
    'DESTINATIONS': ['10.0.0.1:2004:a'],
    'MAX_AGGREGATION_INTERVALS': rng.choice([1, 2, 3, 5, 5]),
    'FORWARD_ALL': rng.random() < 0.6,
    'USE_FLOW_CONTROL': rng.random() < 0.5,
  }
  if rng.random() < 0.4:
    s['WRITE_BACK_FREQUENCY'] = rng.choice([1, 2, 5, 30])
  r = rng.random()
  if r < 0.3:
    s['CACHE_METRIC_NAMES_MAX'] = rng.choice([1, 2, 100])
  elif r < 0.5:
    s['CACHE_METRIC_NAMES_MAX'] = rng.choice([2, 100])
    s['CACHE_METRIC_NAMES_TTL'] = rng.choice([1, 30])
  files = {'aggregation-rules.conf': '\n'.join(lines) + '\n', 'rewrite-rules.conf': None}
  return {'daemon': 'aggregator', 'settings': s, 'files': files}


def cfg_sig(cfg):
  s = cfg['settings']
  return 'max=%s/wb=%s/fwd=%s/cache=%s,%s/%s' % (
    s['MAX_AGGREGATION_INTERVALS'], s.get('WRITE_BACK_FREQUENCY'), s['FORWARD_ALL'],
    s.get('CACHE_METRIC_NAMES_MAX', 0), s.get('CACHE_METRIC_NAMES_TTL', 0),
    cfg['files']['aggregation-rules.conf'].replace('\n', ' | '))


def gen_plan(rng, cfg, tier):
  freqs = []
  for line in cfg['files']['aggregation-rules.conf'].splitlines():
    if '(' in line:
      freqs.append(int(line.split('(')[1].split(')')[0]))
  fmax = max(freqs or [10])
  names = rng.sample(NAMES, rng.randint(1, 5))
  for line in cfg['files']['aggregation-rules.conf'].splitlines():
    pat = line.split()[-1] if '=' in line else None
    if pat in MATCHING and rng.random() < 0.8:
      names += rng.sample(MATCHING[pat], rng.randint(1, len(MATCHING[pat])))
  if rng.random() < 0.5:
    # raw series that are *named like* an aggregate some rule builds from other series
    from . import routeprops
    rules = routeprops.parse_agg_rules(cfg['files']['aggregation-rules.conf'])
    aggs = sorted(set(a for a in (routeprops.ref_agg_match(ru, nm) for ru in rules for nm in names)
                      if a is not None))
    if aggs:
      names += rng.sample(aggs, rng.randint(1, min(2, len(aggs))))
  ops = []
  n = rng.randint(3, 40 if tier == 'quick' else 100)
  counter = [0]
  for _ in range(n):
    if rng.random() < 0.7:
      counter[0] += 1
      r = rng.random()
      if r < 0.5:
        off = 0.0
      elif r < 0.7:
        off = -rng.choice(freqs or [10]) * rng.choice([1, 1, 2, 3, 6, 8])       # late by k intervals
      elif r < 0.8:
        off = -rng.choice([0.3, 1.0, 7.0, 59.0])
      elif r < 0.88:
        off = -100000.0                                                           # very old
      else:
        off = rng.choice([0.5, 3.0, float(fmax), 2.0 * fmax])                    # future
      kind = 'int' if rng.random() < 0.7 else 'frac'
      v = rng.choice([float(counter[0]), float(counter[0]), rng.uniform(-50, 50), 0.0, 1e15, -3.5, 7])
      ops.append(['dp', rng.choice(names), off, kind, v])
      if rng.random() < 0.15:
        ops.append(list(ops[-1]))                                                # duplicate
    else:
      ops.append(['advance', rng.choice([0.0, 0.5, 1.0, 1.0, 2.0, 5.0, 10.0, 30.0, 60.0, float(fmax),
                                         7.0 * fmax, 1000.0])])
  if rng.random() < 0.15:
    # a backfill burst (more old intervals than are kept), a gap of about the retention
    # length, then the series resumes: two values for one interval with a flush in between,
    # around the flush in which the burst's buffers expire
    mx = cfg['settings']['MAX_AGGREGATION_INTERVALS']
    cands = []
    for line in cfg['files']['aggregation-rules.conf'].splitlines():
      pat = line.split()[-1] if '=' in line else None
      if pat in MATCHING and '(' in line:
        cands.append((int(line.split('(')[1].split(')')[0]), MATCHING[pat]))
    if cands:
      f, pool = rng.choice(cands)
      nm = rng.choice(pool)
      pre = [['advance', f * rng.choice([0.5, 0.5, 0.3, 0.7])]]
      ks = list(range(rng.randint(mx + 2, mx + 5), rng.choice([0, -1]), -1))
      r = rng.random()
      if r < 0.3:
        ks.reverse()              # newest first, the backlog afterwards
      elif r < 0.5:
        rng.shuffle(ks)
      for k in ks:
        pre.append(['dp', nm, -float(k * f), 'int', float(k + 1)])
      if rng.random() < 0.4:
        # after the flush that trims the surplus, more data for a recent interval
        pre.append(['advance', float(f)])
        for k in rng.sample([0, 1, 2], rng.randint(1, 2)):
          pre.append(['dp', nm, -float((k + 1) * f), 'int', 9.0 + k])
        pre.append(['advance', float(f)])
        rest = mx + rng.choice([-0.4, -0.4, 0.6])
      else:
        rest = mx + rng.choice([1.6, 1.6, 0.6, 2.6])
      pre.append(['advance', f * max(rest, 0.1)])
      pre.append(['dp', nm, 0.0, 'int', 5.0])
      pre.append(['advance', f * rng.choice([0.5, 0.5, 0.3])])
      pre.append(['dp', rng.choice(pool), 0.0, 'int', 7.0])
      pre.append(['advance', float(f)])
      ops = pre + ops
  if rng.random() < 0.25:
    # the rules file is edited under the running aggregator: same aggregate names,
    # other methods / frequencies (picked up by the 10 s reload, which clears all buffers)
    lines = []
    for line in cfg['files']['aggregation-rules.conf'].splitlines():
      if '=' in line and '(' in line:
        out = line.split()[0]
        pat = line.split()[-1]
        lines.append('%s (%d) = %s %s' % (out, rng.choice([1, 5, 10, 30]), rng.choice(METHODS), pat))
    pos = rng.randint(1, len(ops))
    ops[pos:pos] = [['file', 'aggregation-rules.conf', '\n'.join(lines) + '\n'],
                    ['advance', rng.choice([10.0, 11.0, 20.5])]]
  elif rng.random() < 0.2:
    # the file is edited and the re-read that should pick it up fails with an I/O error
    # (at open, or after the first line), with inputs still buffered
    lines = [l for l in cfg['files']['aggregation-rules.conf'].splitlines() if '=' in l]
    rng.shuffle(lines)
    pos = rng.randint(1, len(ops))
    ops[pos:pos] = [['rules_fault', rng.choice(['open', 'iter'])],
                    ['file', 'aggregation-rules.conf', '\n'.join(lines) + '\n'],
                    ['dp', rng.choice(names), 0.0, 'int', 424242.0],
                    ['advance', rng.choice([10.0, 11.0, 3.0])]]
  return {'ops': ops, 'p_tie': rng.choice([0.0, 0.5, 0.9])}


def boot(cfg):
  return simboot.boot(cfg, use_threads=False)


def execute(w, plan, ctx, finish):
  w.reactor.ctx = ctx
  AggWorld(w, plan, ctx, finish).run()


def nontrivial(res):
  return res.get('probes', {}).get('emissions', 0) > 0
