"""C09 -- back-pressure always lets go (cache side in world B, relay side in world C)."""
from . import cacheworld as cw

PROP = 'C09'
PROFILE = 'c09'
QUICK = (224, 60, 60.0)
THOROUGH = (1200, 100, 840.0)
SHRINK_LISTS, SHRINK_DICTS = cw.SHRINK_LISTS, cw.SHRINK_DICTS


def _relay():
  from . import relayworld
  return relayworld


def gen_config(rng, tier):
  if rng.random() < 0.5:
    try:
      return _relay().gen_config(rng, tier, 'c09')
    except ImportError:
      pass
  return cw.gen_config(rng, tier, PROFILE)


def gen_plan(rng, cfg, tier):
  if cfg['daemon'] == 'relay':
    return _relay().gen_plan(rng, cfg, tier, 'c09')
  return cw.gen_plan(rng, cfg, tier, PROFILE)


def boot(cfg):
  return _relay().boot(cfg) if cfg['daemon'] == 'relay' else cw.boot(cfg)


def execute(w, plan, ctx, finish):
  if w.cfg['daemon'] == 'relay':
    return _relay().execute(w, plan, ctx, finish)
  return cw.execute(w, plan, ctx, finish)


def cfg_sig(cfg):
  return _relay().cfg_sig(cfg) if cfg['daemon'] == 'relay' else cw.cfg_sig(cfg)


def nontrivial(res):
  p = res.get('probes', {})
  return any(k in p for k in ('send_deferred_by_pause', 'connected_while_paused', 'paused_at_some_point_end',
                              'disconnect_while_paused', 'relay_paused', 'queue_full'))
