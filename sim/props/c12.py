"""C12 -- admission rules: blacklist, whitelist, NaN and timestamp normalisation.

The lists are re-read by a 10 s LoopingCall on the virtual clock; during a run
the harness rewrites, empties or deletes a list file between datapoints, so
which rule set is in force depends on the timer schedule; -1 timestamps take
the virtual now at delivery.  The same datapoints travel over line, UDP and
pickle connections in interleaved segments.
"""
from . import ingest as ig

PROP = 'C12'
QUICK = (384, 80, 60.0)
THOROUGH = (1600, 150, 840.0)
boot, execute = ig.boot, ig.execute
shrink_plan = ig.shrink_plan
SHRINK_LISTS, SHRINK_DICTS = ig.SHRINK_LISTS, ig.SHRINK_DICTS

PATTERNS = [r'^a\.', 'cpu', r'\.b$', '^$', '.*', 'x+y', '[0-9]+', '(unclosed', '*bad', r'^sys\.', 'é', r'\.\.',
            r'^\.', r'\.$', 'A', '^m[0-3]$']
NAMES = ['a.b', 'a.cpu', 'sys.cpu.0', 'sys.mem', 'xxy', 'm0', 'm1', 'm7', 'é.b', 'A.z', 'a..b', '.lead', 'trail.',
         'zzz', 'cpu', 'B', 'a.b;tag=1']


def gen_list(rng):
  r = rng.random()
  if r < 0.12:
    return None            # file missing
  if r < 0.25:
    return ''              # empty file
  lines = []
  for _ in range(rng.randint(1, 5)):
    x = rng.random()
    if x < 0.15:
      lines.append('# a comment')
    elif x < 0.25:
      lines.append('')
    else:
      lines.append(rng.choice(PATTERNS))
  return '\n'.join(lines) + ('\n' if rng.random() < 0.8 else '')


def junk_line(rng):
  """A malformed line that fails while it is parsed (a parsable line with a NaN or infinite
  timestamp reaches the admission rules and is counted by them before it is dropped)."""
  while True:
    b = ig.bad_line(rng)
    if not b.startswith(b'm 1 '):
      return b


def junk_frame(rng):
  while True:
    body, exp = ig.bad_pickle_body(rng)
    if not any(e is None for e in exp):
      return body, exp


def gen_config(rng, tier):
  s = {'USE_WHITELIST': True, 'USE_FLOW_CONTROL': rng.random() < 0.8,
       'MIN_TIMESTAMP_RESOLUTION': rng.choice([0, 1, 10, 60])}
  files = {'whitelist.conf': gen_list(rng), 'blacklist.conf': gen_list(rng)}
  ig.listener_knobs(rng, s)
  if rng.random() < 0.2:
    s['METRIC_CLIENT_IDLE_TIMEOUT'] = rng.choice([5, 30])
  if rng.random() < 0.2:
    s['MAX_RECEIVER_CONNECTIONS'] = rng.choice([1, 2, 3])
  # the daemon is not started on a whole second: the 10 s reload ticks fall inside seconds
  t0 = 1000000.0 + rng.choice([0.0, 0.0, 0.25, 0.5, 0.5, 0.75])
  return {'daemon': 'cache', 'settings': s, 'files': files, 't0': t0}


def cfg_sig(cfg):
  f = cfg['files']
  s = cfg['settings']
  return 'res=%s wl=%r bl=%r t0=%s log=%s%s' % (s['MIN_TIMESTAMP_RESOLUTION'], f['whitelist.conf'],
                                             f['blacklist.conf'], cfg.get('t0'),
                                             int(s['LOG_LISTENER_CONN_SUCCESS']), int(s['LOG_LISTENER_CONN_LOST']))


def gen_dp(rng):
  r = rng.random()
  if r < 0.15:
    ts = -1
  elif r < 0.25:
    ts = -1.0
  elif r < 0.6:
    ts = float(rng.randint(0, 2000000000))
  else:
    ts = rng.randint(0, 2000000) + rng.choice([0.5, 0.25, 0.999, 0.0])
  r = rng.random()
  if r < 0.12:
    v = float('nan')
  elif r < 0.2:
    v = rng.choice([float('inf'), float('-inf')])
  elif r < 0.6:
    v = rng.uniform(-100, 100)
  else:
    v = rng.randint(-1000, 1000)
  return [rng.choice(NAMES), ts, v]


def gen_plan(rng, cfg, tier):
  n = rng.randint(3, 25)
  dps = [gen_dp(rng) for _ in range(n)]
  clients = []
  kinds = rng.sample(['line', 'pickle', 'udp'], rng.randint(1, 3))
  import pickle
  import struct
  # now and then the traffic also carries items no rule is about (malformed lines and
  # frames): they must not cost any admissible datapoint around them
  junk = 0.2 if rng.random() < 0.3 else 0.0
  for kind in kinds:
    if kind == 'udp':
      dg = []
      i = 0
      while i < len(dps):
        k = rng.choice([1, 2, 4])
        part = dps[i:i + k]
        if junk and rng.random() < junk:
          dg.append({'data': junk_line(rng) + b''.join(ig.line_bytes(d) for d in part), 'dps': [None] + part})
        else:
          dg.append({'data': b''.join(ig.line_bytes(d) for d in part), 'dps': part})
        i += k
      clients.append({'kind': 'udp', 'dgrams': dg})
    elif kind == 'line':
      stream = b''
      items = []
      for d in dps:
        if junk and rng.random() < junk:
          start = len(stream)
          stream += junk_line(rng)
          items.append({'start': start, 'end': len(stream), 'dps': []})
        start = len(stream)
        stream += ig.line_bytes(d)
        items.append({'start': start, 'end': len(stream), 'dps': [d]})
      clients.append({'kind': 'line', 'stream': stream, 'items': items})
    else:
      stream = b''
      items = []
      i = 0
      while i < len(dps):
        k = rng.choice([1, 2, 5])
        part = dps[i:i + k]
        if junk and rng.random() < junk:
          start = len(stream)
          body, exp = junk_frame(rng)
          stream += struct.pack('!I', len(body)) + body
          items.append({'start': start, 'end': len(stream), 'dps': exp})
        start = len(stream)
        stream += ig.pickle_frame([(d[0], (d[1], d[2])) for d in part], rng.choice([0, 2, 4]))
        items.append({'start': start, 'end': len(stream), 'dps': part})
        i += k
      clients.append({'kind': 'pickle', 'stream': stream, 'items': items})
  extra = []
  exact = rng.random() < 0.4        # files carry the sub-second instant they were written at
  for _ in range(rng.randint(0, 5)):
    extra.append(['file', rng.choice(['whitelist.conf', 'blacklist.conf']), gen_list(rng)] +
                 (['exact'] if exact else []))
    extra.append(['advance', rng.choice([1.0, 5.0, 9.999, 10.0, 10.0, 25.0])])
  for _ in range(rng.choice([0, 0, 0, 1, 2])):
    # what the cache signals when it is (nearly) full / has space again
    extra.insert(rng.randint(0, len(extra)), rng.choice([['cachefull'], ['cachefull'], ['cachespace']]))
  if rng.random() < 0.15:
    extra.insert(rng.randint(0, len(extra)), ['walljump', rng.choice([3600.0, 45.0, -45.0, -3600.0])])
  if exact and rng.random() < 0.5:
    # an editor saving twice within a second, a reload tick falling in between
    name = rng.choice(['whitelist.conf', 'blacklist.conf'])
    burst = [['advance', rng.choice([9.75, 9.5, 9.8])], ['file', name, gen_list(rng), 'exact'],
             ['advance', rng.choice([0.25, 0.4, 0.5])], ['file', name, gen_list(rng), 'exact'],
             ['advance', rng.choice([10.0, 10.0, 20.0])]]
    pos = rng.randint(0, len(extra))
    extra[pos:pos] = burst
  plan = {'prop': PROP, 'clients': clients, 'steps': ig.gen_steps(rng, clients, extra)}
  plan['late_connect'] = rng.random() < 0.4
  if rng.random() < 0.2:
    # the file cannot be read (EACCES) when a reload tick looks at it, although unchanged
    plan['unreadable'] = [[rng.randint(1, 4), rng.choice(['whitelist', 'blacklist'])]
                          for _ in range(rng.randint(1, 2))]
  if rng.random() < 0.25:
    # an editor saves the file once more while the daemon is reading it at a reload tick
    plan['save_during_read'] = [[rng.randint(1, 4), rng.choice(['whitelist', 'blacklist']), gen_list(rng) or '^a\\.\n']
                                for _ in range(rng.randint(1, 2))]
  if rng.random() < 0.3:
    # the list file is being replaced (unlink + re-create) exactly while it is re-read
    plan['fs_faults'] = [[rng.randint(1, 4), rng.choice(['whitelist', 'blacklist'])]
                         for _ in range(rng.randint(1, 2))]
  return plan


def nontrivial(res):
  p = res.get('probes', {})
  return any(k in p for k in ('list_reload', 'timestamp_minus_one', 'list_file_missing_at_reload'))
