"""C12 -- admission rules: blacklist, whitelist, NaN and timestamp normalisation.

The lists are re-read by a 10 s LoopingCall on the virtual clock; during a run
the harness rewrites, empties or deletes a list file between datapoints, so
which rule set is in force depends on the timer schedule; -1 timestamps take
the virtual now at delivery.  The same datapoints travel over line, UDP and
pickle connections in interleaved segments.
"""
from . import ingest as ig

PROP = 'C12'
QUICK = (256, 80, 60.0)
THOROUGH = (1600, 150, 840.0)
boot, execute = ig.boot, ig.execute
shrink_plan = ig.shrink_plan
SHRINK_LISTS, SHRINK_DICTS = ig.SHRINK_LISTS, ig.SHRINK_DICTS

PATTERNS = [r'^a\.', 'cpu', r'\.b$', '^$', '.*', 'x+y', '[0-9]+', '(unclosed', '*bad', r'^sys\.', 'é', r'\.\.',
            r'^\.', r'\.$', 'A', '^m[0-3]$']
NAMES = ['a.b', 'a.cpu', 'sys.cpu.0', 'sys.mem', 'xxy', 'm0', 'm1', 'm7', 'é.b', 'A.z', 'a..b', '.lead', 'trail.',
         'zzz', 'cpu', 'B', 'a.b;tag=1']


def gen_list(rng):
  r = rng.random()
  if r < 0.12:
    return None            # file missing
  if r < 0.25:
    return ''              # empty file
  lines = []
  for _ in range(rng.randint(1, 5)):
    x = rng.random()
    if x < 0.15:
      lines.append('# a comment')
    elif x < 0.25:
      lines.append('')
    else:
      lines.append(rng.choice(PATTERNS))
  return '\n'.join(lines) + ('\n' if rng.random() < 0.8 else '')


def gen_config(rng, tier):
  s = {'USE_WHITELIST': True, 'USE_FLOW_CONTROL': True,
       'MIN_TIMESTAMP_RESOLUTION': rng.choice([0, 1, 10, 60])}
  files = {'whitelist.conf': gen_list(rng), 'blacklist.conf': gen_list(rng)}
  return {'daemon': 'cache', 'settings': s, 'files': files}


def cfg_sig(cfg):
  f = cfg['files']
  return 'res=%s wl=%r bl=%r' % (cfg['settings']['MIN_TIMESTAMP_RESOLUTION'], f['whitelist.conf'],
                                f['blacklist.conf'])


def gen_dp(rng):
  r = rng.random()
  if r < 0.15:
    ts = -1
  elif r < 0.25:
    ts = -1.0
  elif r < 0.6:
    ts = float(rng.randint(0, 2000000000))
  else:
    ts = rng.randint(0, 2000000) + rng.choice([0.5, 0.25, 0.999, 0.0])
  r = rng.random()
  if r < 0.12:
    v = float('nan')
  elif r < 0.2:
    v = rng.choice([float('inf'), float('-inf')])
  elif r < 0.6:
    v = rng.uniform(-100, 100)
  else:
    v = rng.randint(-1000, 1000)
  return [rng.choice(NAMES), ts, v]


def gen_plan(rng, cfg, tier):
  n = rng.randint(3, 25)
  dps = [gen_dp(rng) for _ in range(n)]
  clients = []
  kinds = rng.sample(['line', 'pickle', 'udp'], rng.randint(1, 3))
  import pickle
  import struct
  for kind in kinds:
    if kind == 'udp':
      dg = []
      i = 0
      while i < len(dps):
        k = rng.choice([1, 2, 4])
        part = dps[i:i + k]
        dg.append({'data': b''.join(ig.line_bytes(d) for d in part), 'dps': part})
        i += k
      clients.append({'kind': 'udp', 'dgrams': dg})
    elif kind == 'line':
      stream = b''
      items = []
      for d in dps:
        start = len(stream)
        stream += ig.line_bytes(d)
        items.append({'start': start, 'end': len(stream), 'dps': [d]})
      clients.append({'kind': 'line', 'stream': stream, 'items': items})
    else:
      stream = b''
      items = []
      i = 0
      while i < len(dps):
        k = rng.choice([1, 2, 5])
        part = dps[i:i + k]
        start = len(stream)
        stream += ig.pickle_frame([(d[0], (d[1], d[2])) for d in part], rng.choice([0, 2, 4]))
        items.append({'start': start, 'end': len(stream), 'dps': part})
        i += k
      clients.append({'kind': 'pickle', 'stream': stream, 'items': items})
  extra = []
  for _ in range(rng.randint(0, 5)):
    extra.append(['file', rng.choice(['whitelist.conf', 'blacklist.conf']), gen_list(rng)])
    extra.append(['advance', rng.choice([1.0, 5.0, 9.999, 10.0, 10.0, 25.0])])
  plan = {'prop': PROP, 'clients': clients, 'steps': ig.gen_steps(rng, clients, extra)}
  if rng.random() < 0.3:
    # the list file is being replaced (unlink + re-create) exactly while it is re-read
    plan['fs_faults'] = [[rng.randint(1, 4), rng.choice(['whitelist', 'blacklist'])]
                         for _ in range(rng.randint(1, 2))]
  return plan


def nontrivial(res):
  p = res.get('probes', {})
  return any(k in p for k in ('list_reload', 'timestamp_minus_one', 'list_file_missing_at_reload'))
