"""C11 -- malformed input is skipped without harming the connection or its neighbours."""
from . import ingest as ig

PROP = 'C11'
QUICK = (320, 120, 60.0)
THOROUGH = (1200, 200, 840.0)
boot, execute = ig.boot, ig.execute
shrink_plan = ig.shrink_plan
SHRINK_LISTS, SHRINK_DICTS = ig.SHRINK_LISTS, ig.SHRINK_DICTS


def gen_config(rng, tier):
  s = {'USE_FLOW_CONTROL': True}
  if rng.random() < 0.3:
    s['PICKLE_RECEIVER_MAX_LENGTH'] = rng.choice([4096, 65536])
  ig.listener_knobs(rng, s, limits=True)
  return {'daemon': 'cache', 'settings': s, 'files': {}}


def cfg_sig(cfg):
  s = cfg['settings']
  return 'maxlen=%s maxconn=%s idle=%s log=%s%s' % (
    s.get('PICKLE_RECEIVER_MAX_LENGTH', 'default'), s.get('MAX_RECEIVER_CONNECTIONS', 'inf'),
    s.get('METRIC_CLIENT_IDLE_TIMEOUT'), int(s['LOG_LISTENER_CONN_SUCCESS']), int(s['LOG_LISTENER_CONN_LOST']))


def gen_plan(rng, cfg, tier):
  clients = []
  nline, npickle, nudp = rng.randint(0, 2), rng.randint(0, 2), rng.randint(0, 1)
  if nline + npickle + nudp == 0:
    npickle = 1
  rate = rng.choice([0.2, 0.4, 0.7])
  mx = cfg['settings'].get('PICKLE_RECEIVER_MAX_LENGTH', 2 ** 20)
  for _ in range(nline):
    clients.append(ig.build_tcp_client(rng, 'line', rng.randint(1, 10), rate, allow_close=True))
  for _ in range(npickle):
    clients.append(ig.build_tcp_client(rng, 'pickle', rng.randint(1, 8), rate, allow_close=True, maxlen=mx))
  for _ in range(nudp):
    clients.append(ig.build_udp_client(rng, rng.randint(1, 5), rate))
  extra = []
  if rng.random() < 0.4:
    # quiet periods (idle timers run) between the segments
    for _ in range(rng.choice([1, 1, 2])):
      extra.append(['advance', rng.choice([4.0, 6.0, 29.0, 31.0])])
  if rng.random() < (0.5 if cfg['settings'].get('METRIC_CLIENT_IDLE_TIMEOUT') else 0.1):
    extra.insert(rng.randint(0, len(extra)), ['walljump', rng.choice([3600.0, 45.0, -45.0, -3600.0])])
    extra.append(['advance', rng.choice([4.0, 6.0, 29.0])])
  plan = {'prop': PROP, 'clients': clients, 'steps': ig.gen_steps(rng, clients, extra)}
  # connections that arrive while others are open (the limit may hold them in the backlog)
  plan['late_connect'] = rng.random() < 0.5
  plan['finish_reset'] = [i for i in range(len(clients)) if rng.random() < 0.25]
  return plan


def nontrivial(res):
  return True
