"""C11 -- malformed input is skipped without harming the connection or its neighbours."""
from . import ingest as ig

PROP = 'C11'
QUICK = (192, 120, 60.0)
THOROUGH = (1200, 200, 840.0)
boot, execute = ig.boot, ig.execute
shrink_plan = ig.shrink_plan
SHRINK_LISTS, SHRINK_DICTS = ig.SHRINK_LISTS, ig.SHRINK_DICTS


def gen_config(rng, tier):
  s = {'USE_FLOW_CONTROL': True}
  if rng.random() < 0.3:
    s['PICKLE_RECEIVER_MAX_LENGTH'] = rng.choice([4096, 65536])
  return {'daemon': 'cache', 'settings': s, 'files': {}}


def cfg_sig(cfg):
  return 'maxlen=%s' % cfg['settings'].get('PICKLE_RECEIVER_MAX_LENGTH', 'default')


def gen_plan(rng, cfg, tier):
  clients = []
  nline, npickle, nudp = rng.randint(0, 2), rng.randint(0, 2), rng.randint(0, 1)
  if nline + npickle + nudp == 0:
    npickle = 1
  rate = rng.choice([0.2, 0.4, 0.7])
  mx = cfg['settings'].get('PICKLE_RECEIVER_MAX_LENGTH', 2 ** 20)
  for _ in range(nline):
    clients.append(ig.build_tcp_client(rng, 'line', rng.randint(1, 10), rate, allow_close=True))
  for _ in range(npickle):
    clients.append(ig.build_tcp_client(rng, 'pickle', rng.randint(1, 8), rate, allow_close=True, maxlen=mx))
  for _ in range(nudp):
    clients.append(ig.build_udp_client(rng, rng.randint(1, 5), rate))
  return {'prop': PROP, 'clients': clients, 'steps': ig.gen_steps(rng, clients)}


def nontrivial(res):
  return True
