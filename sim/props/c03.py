"""C03 -- the writer persists each drained datapoint exactly once or accounts for it."""
from . import cacheworld as cw

PROP = 'C03'
PROFILE = 'c03'
QUICK = (144, 60, 60.0)
THOROUGH = (160, 100, 840.0)
boot, execute, cfg_sig, nontrivial = cw.boot, cw.execute, cw.cfg_sig, cw.nontrivial
SHRINK_LISTS, SHRINK_DICTS = cw.SHRINK_LISTS, cw.SHRINK_DICTS


def gen_config(rng, tier):
  return cw.gen_config(rng, tier, PROFILE)


def gen_plan(rng, cfg, tier):
  return cw.gen_plan(rng, cfg, tier, PROFILE)


# ---- thorough tier: fault enumeration --------------------------------------------
# For every ENUM_EVERY-th seeded run the fault-free version of the plan is executed,
# its backend calls c_1..c_k counted, and the plan re-executed once per single-fault
# placement (each call raising) and for a seeded sample of placement pairs.
ENUM_EVERY = {'thorough': 6, 'quick': 60}


def enumeration_base(plan):
  p = dict(plan)
  p.pop('db_faults', None)
  return p


def enumerate_variants(base, bres, rng, tier):
  if bres.get('sim_seconds', 0) > 400:
    return          # very long base run (instrumentation ticks): not worth 30 re-executions
  k = min(int(bres.get('db_calls', 0)), 60 if tier == 'thorough' else 20)
  kinds = ['ioerror', 'enospc', 'runtime']
  for i in range(k):
    v = dict(base)
    v['db_faults'] = {str(i): ['raise', kinds[i % 3]]}
    yield v
  pairs = [(i, j) for i in range(k) for j in range(i + 1, k)]
  rng.shuffle(pairs)
  for i, j in pairs[:60 if tier == 'thorough' else 10]:
    v = dict(base)
    v['db_faults'] = {str(i): ['raise', 'ioerror'], str(j): ['raise', 'runtime']}
    yield v
