"""Routing oracles evaluated at states the relay simulation reaches
(C05 replica sets, C06 ring stability / compatibility / history independence,
C16 rule files).  All reference code here is independent of carbon."""
import os
import re
import json
import hashlib

from ..refmodels import RefRing, ref_position, ref_fnv1a_fold
from .. import core

_PRE = {}


def preimage(hash_type):
  """One key per ring position (0..65535) for the given hash type, built by
  brute force with the *reference* hash and cached under /verif/build."""
  hash_type = hash_type or 'carbon_ch'
  if hash_type in _PRE:
    return _PRE[hash_type]
  path = os.path.join(core.VERIF_ROOT, 'build', 'preimage_%s.json' % hash_type)
  if os.path.exists(path):
    with open(path) as f:
      _PRE[hash_type] = json.load(f)
      return _PRE[hash_type]
  table = [None] * 65536
  left = 65536
  i = 0
  while left:
    key = 'k%x' % i
    p = ref_position(key, hash_type)
    if table[p] is None:
      table[p] = key
      left -= 1
    i += 1
  os.makedirs(os.path.dirname(path), exist_ok=True)
  tmp = path + '.%d' % os.getpid()
  with open(tmp, 'w') as f:
    json.dump(table, f)
  os.replace(tmp, path)
  _PRE[hash_type] = table
  return table


def node_of(dest):
  return (dest[0], dest[2])


def test_positions(world, ring_entries):
  """Breakpoints of the real and the reference ring (e, e+1), ring ends, a seeded
  stripe; the full 65 536 positions when the plan asks for an exhaustive sweep."""
  plan = world.plan
  if plan.get('full_sweep') and getattr(world, 'full_sweeps_done', 0) < 2:
    # all 65 536 ring positions, for the first two membership states of the run (a full
    # sweep costs seconds; every further state is covered through its breakpoints)
    world.full_sweeps_done = getattr(world, 'full_sweeps_done', 0) + 1
    world.ctx.probe('full_ring_sweep')
    return range(65536)
  pts = set([0, 1, 65535])
  for e in ring_entries:
    if 0 <= e < 65536:
      pts.add(e)
    if 0 <= e + 1 < 65536:
      pts.add(e + 1)
    if e - 1 >= 0:
      pts.add(e - 1)
  stripe = plan.get('stripe', 97)
  off = plan.get('stripe_off', 0)
  pts.update(range(off % stripe, 65536, stripe))
  lim = plan.get('max_positions')
  out = sorted(pts)
  if lim and len(out) > lim:
    step = len(out) / float(lim)
    out = [out[int(i * step)] for i in range(lim)]
  return out


def hash_type_of(world):
  return world.settings.ROUTER_HASH_TYPE or 'carbon_ch'


def check_replica_set(world, inner, key, configured, where):
  """C05 on one key."""
  ctx = world.ctx
  try:
    res = list(inner.getDestinations(key))
    res2 = list(inner.getDestinations(key))
  except Exception as e:
    ctx.violation('C05', 'routing-raises', type(e).__name__,
                  'getDestinations(%r) raised %r with configured %r' % (key, e, sorted(configured)))
    return []
  rf = inner.replication_factor
  diverse = inner.diverse_replicas
  servers = set(d[0] for d in configured)
  eligible = len(servers) if diverse else len(configured)
  want = min(rf, eligible)
  if res != res2:
    ctx.violation('C05', 'unstable-routing', where, 'key %r routed to %r then %r with no membership change'
                  % (key, res, res2))
  if len(res) != want:
    ctx.violation('C05', 'wrong-replica-count', where,
                  'key %r got %d destinations %r; replication factor %d, eligible %d (%s), configured %r'
                  % (key, len(res), res, rf, eligible, 'distinct servers' if diverse else 'destinations',
                     sorted(configured)))
  if len(set(res)) != len(res):
    ctx.violation('C05', 'repeated-destination', where, 'key %r got a repeated destination: %r' % (key, res))
  for d in res:
    if d not in configured:
      ctx.violation('C05', 'unconfigured-destination', where,
                    'key %r routed to %r which is not configured (%r)' % (key, d, sorted(configured)))
  if diverse and len(set(d[0] for d in res)) != len(res):
    ctx.violation('C05', 'replicas-share-server', where, 'DIVERSE_REPLICAS: key %r got %r' % (key, res))
  return res


def check_routing(world, op, dest):
  """Called after every membership change (and at boot)."""
  ctx = world.ctx
  router = world.router
  inner = world.hash_router
  configured = set(d for d in world.dests if router.hasDestination(d))
  method = world.settings.RELAY_METHOD
  if inner is not None:
    ht = hash_type_of(world)
    pre = preimage(ht)
    consistent = type(inner.ring).__name__ == 'ConsistentHashRing'
    # reference ring replaying the same membership history
    ref = RefRing(ht)
    for o, d in world.member_ops:
      if o == 'add':
        ref.add(node_of(d))
      else:
        ref.remove(node_of(d))
    entries = [e[0] for e in ref.entries]
    if consistent:
      try:
        entries += [e[0] for e in inner.ring.ring]
      except Exception:
        pass
      if any(e[0] != e[2] for e in ref.entries):
        ctx.probe('ring_collision_bump')
    positions = test_positions(world, entries if consistent else [])
    ctx.sigs.add('ring:%s:%d:%s' % (ht, len(configured), op))
    # fresh ring from the live destinations in configuration order (C06 c)
    fresh = None
    if consistent:
      conf_order = [d for d in world.w.util.parseDestinations(world.settings.DESTINATIONS)
                    if d in configured]
      fresh = RefRing(ht, [node_of(d) for d in conf_order])
    port_of = dict((node_of(d), d) for d in configured)
    prev = getattr(world, '_prefs', None)
    prefs = {}
    ndiff_fresh = 0
    for pos in positions:
      key = pre[pos]
      check_replica_set(world, inner, key, configured, method)
      if consistent:
        try:
          real_pref = list(inner.ring.get_nodes(key))
        except Exception as e:
          ctx.violation('C06', 'ring-lookup-raises', type(e).__name__,
                        'position %d (key %r): get_nodes raised %r' % (pos, key, e))
          continue
        prefs[pos] = real_pref
        ref_pref = ref.walk(pos)
        if real_pref != ref_pref:
          ctx.violation('C06', 'differs-from-published-ring', ht,
                        'position %d (key %r): relay prefers %r, the published %s algorithm gives %r '
                        'for the same add/remove history' % (pos, key, real_pref[:4], ht, ref_pref[:4]))
        if fresh is not None:
          fp = fresh.walk(pos)
          if fp != real_pref:
            ndiff_fresh += 1
            classify_history_dependence(world, ref, fresh, pos, key, real_pref, fp)
          # the relay's answer for this key against a freshly started relay's: the published
          # replica selection applied to the fresh ring's preference order (where the rings
          # agree; where they do not, the ring clauses above have already spoken)
          if fp == real_pref and type(inner).__name__ == 'ConsistentHashingRouter':
            want = ref_select(fp, inner.replication_factor, inner.diverse_replicas, port_of)
            try:
              got = list(inner.getDestinations(key))
            except Exception:
              got = None        # reported by the C05 clause
            if got is not None and got != want:
              ctx.violation('C06', 'router-differs-from-fresh-relay', ht,
                            'position %d (key %r): after this membership history the relay routes to '
                            '%r; a freshly started relay with the same live destinations %r routes to '
                            '%r' % (pos, key, got, sorted(configured), want))
        if prev is not None and op in ('add', 'remove') and pos in prev:
          n = node_of(dest)
          if op == 'remove':
            exp = [x for x in prev[pos] if x != n]
            if exp != real_pref:
              ctx.violation('C06', 'removal-moved-other-metrics', ht,
                            'position %d: before removing %r the order was %r, after it is %r'
                            % (pos, n, prev[pos][:5], real_pref[:5]))
          else:
            exp = [x for x in real_pref if x != n]
            if exp != prev[pos]:
              ctx.violation('C06', 'addition-moved-other-metrics', ht,
                            'position %d: before adding %r the order was %r, after it is %r'
                            % (pos, n, prev[pos][:5], real_pref[:5]))
    if consistent:
      world._prefs = prefs
      if ndiff_fresh:
        ctx.probe('history_dependent_positions', ndiff_fresh)
  if method == 'rules':
    check_rules_sweep(world, configured)
  if method in ('aggregated-consistent-hashing', 'fast-aggregated-hashing'):
    check_aggregated_sweep(world, configured)


def ref_select(pref, rf, diverse, port_of):
  """Published replica selection: the first REPLICATION_FACTOR nodes of the preference
  order; with DIVERSE_REPLICAS nodes on an already used server are passed over."""
  out = []
  used = set()
  for node in pref:
    if len(out) >= rf:
      break
    if diverse:
      if node[0] in used:
        continue
      used.add(node[0])
    out.append(port_of[node])
  return out


def classify_history_dependence(world, ref, fresh, pos, key, real_pref, fresh_pref):
  """C06 (c).  Known finding: collision bumping makes ring positions depend on
  insertion order.  A difference is attributed to it only if both rings hold the
  same un-bumped entries and the first diverging entry of the two walks lies in a
  run of consecutive occupied positions that contains a bumped entry."""
  ctx = world.ctx
  raw_a = sorted((e[2], repr(e[1])) for e in ref.entries)
  raw_b = sorted((e[2], repr(e[1])) for e in fresh.entries)
  benign = raw_a == raw_b
  if benign:
    spans = ref.clusters() + fresh.clusters()
    import bisect
    ia = bisect.bisect_left(ref.entries, (pos,)) % len(ref.entries)
    ib = bisect.bisect_left(fresh.entries, (pos,)) % len(fresh.entries)
    div = None
    for k in range(len(ref.entries)):
      a = ref.entries[(ia + k) % len(ref.entries)]
      b = fresh.entries[(ib + k) % len(fresh.entries)]
      if a[:2] != b[:2]:
        div = (a[0], b[0])
        break
    benign = div is not None and any(lo <= div[0] <= hi or lo <= div[1] <= hi for lo, hi in spans)
  if benign:
    ctx.violation('C06', 'history-dependent-collision-bump', 'ring',
                  'position %d (key %r): after this add/remove history the relay prefers %r, a freshly '
                  'started relay with the same destinations prefers %r (replica positions that collided '
                  'were bumped in a different order)' % (pos, key, real_pref[:3], fresh_pref[:3]))
  else:
    ctx.violation('C06', 'history-dependent-routing', 'ring',
                  'position %d (key %r): relay prefers %r, a freshly started relay prefers %r and no '
                  'collision bump explains it' % (pos, key, real_pref[:3], fresh_pref[:3]))


def check_key(world, metric):
  """Invariants on every routed datapoint."""
  router = world.router
  inner = world.hash_router
  configured = set(d for d in world.dests if router.hasDestination(d))
  method = world.settings.RELAY_METHOD
  if inner is not None and method in ('consistent-hashing', 'fast-hashing'):
    check_replica_set(world, inner, metric, configured, method)
  if method == 'rules':
    check_rules_key(world, metric, configured)
  if method in ('aggregated-consistent-hashing', 'fast-aggregated-hashing'):
    check_aggregated_key(world, metric, configured)


# ---------------------------------------------------------------------------
# C16: relay-rules reference evaluator (from conf/relay-rules.conf.example)
# ---------------------------------------------------------------------------
def parse_relay_rules(text):
  from configparser import ConfigParser
  cp = ConfigParser(interpolation=None)
  cp.read_string(text)
  order = []
  for line in text.splitlines():
    line = line.strip()
    if line.startswith('[') and line.endswith(']'):
      order.append(line[1:-1])
  rules = []
  default = None
  for name in order:
    opts = dict(cp.items(name))
    dests = []
    for s in opts['destinations'].split(','):
      parts = s.strip().split(':')
      dests.append((parts[0], int(parts[1]), parts[2] if len(parts) > 2 else None))
    if 'pattern' in opts:
      cont = opts.get('continue', 'false').strip().lower() in ('1', 'yes', 'true', 'on')
      rules.append((opts['pattern'], dests, cont))
    elif opts.get('default', 'false').strip().lower() in ('1', 'yes', 'true', 'on'):
      default = dests
  return rules, default


def ref_rules_route(world, metric, configured):
  if not hasattr(world, '_relay_rules'):
    world._relay_rules = parse_relay_rules(world.w.cfg['files']['relay-rules.conf'])
  rules, default = world._relay_rules
  out = set()
  for pattern, dests, cont in rules:
    if re.search(pattern, metric):
      out.update(d for d in dests if d in configured)
      world.ctx.sigs.add('rule:%s:%s' % (pattern, cont))
      if not cont:
        return out
  out.update(d for d in (default or []) if d in configured)
  return out


def check_rules_key(world, metric, configured):
  try:
    got = list(world.router.getDestinations(metric))
  except Exception as e:
    world.ctx.violation('C16', 'routing-raises', type(e).__name__, 'getDestinations(%r) raised %r' % (metric, e))
    return
  exp = ref_rules_route(world, metric, configured)
  if set(got) != exp:
    world.ctx.violation('C16', 'rules-routing-differs', 'rules',
                        'metric %r routed to %r; relay-rules.conf read in file order gives %r '
                        '(configured %r)' % (metric, sorted(set(got)), sorted(exp), sorted(configured)))
  for d in got:
    if d not in configured:
      world.ctx.violation('C16', 'unconfigured-destination', 'rules', 'metric %r -> %r' % (metric, d))


RULE_NAMES = ['a.b', 'a.cpu', 'sys.cpu.0', 'sys.mem', 'web.1.req', 'web.2.req', 'db.x', 'zzz', 'a', 'prod.app.w1.req',
              'prod.app.w2.req', 'prod.app.w1.lat', 'dev.app.w1.req', 'prod.app.all.req', 'x.y.z.w', 'prod..req',
              'prod.app.w1.req.extra', 'xprod.app.w1.req', 'prod.app.w1.reqs',
              # one segment too many exactly where a <field> or * sits
              'prod.eu.app.w1.req', 'prod.app.w1.x.req', 'sys.cpu.x.0', 'web.1.2.req', 'x.q.r.s', 'sys.a.b']


def check_rules_sweep(world, configured):
  for m in RULE_NAMES:
    check_rules_key(world, m, configured)


# ---------------------------------------------------------------------------
# C16 / C08: aggregation-rules reference matcher (from aggregation-rules.conf.example)
# ---------------------------------------------------------------------------
def parse_agg_rules(text):
  rules = []
  for line in (text or '').splitlines():
    line = line.strip()
    if not line or line.startswith('#'):
      continue
    left, right = line.split('=', 1)
    out, freq = left.split()
    method, pattern = right.split()
    rules.append({'out': out, 'freq': int(freq.strip('()')), 'method': method, 'pattern': pattern})
  return rules


def _match_segment(pat, seg, fields):
  """pat: one dot-free pattern segment with literals, '*' and at most one <field>."""
  m = re.match(r'^(.*?)<([^<>]+)>(.*)$', pat)
  if m:
    pre, name, post = m.groups()
    # literal pre/post may contain '*'
    for cut_a in range(len(seg) + 1):
      for cut_b in range(cut_a + 1, len(seg) + 1):
        if _glob(pre, seg[:cut_a]) and _glob(post, seg[cut_b:]):
          f = dict(fields)
          f[name] = seg[cut_a:cut_b]
          return f
    return None
  if pat == '*':
    return fields if seg else None
  return fields if _glob(pat, seg) else None


def _glob(pat, s):
  if '*' not in pat:
    return pat == s
  parts = pat.split('*')
  if not s.startswith(parts[0]):
    return False
  pos = len(parts[0])
  for p in parts[1:-1]:
    i = s.find(p, pos)
    if i < 0:
      return False
    pos = i + len(p)
  return s.endswith(parts[-1]) and len(s) - len(parts[-1]) >= pos


def ref_agg_match(rule, metric):
  """-> aggregate name or None.  Whole-name match; <field> confined to one
  dot-free segment; <<field>> may span dots (shortest first)."""
  psegs = rule['pattern'].split('.')
  msegs = metric.split('.')

  def rec(pi, mi, fields):
    if pi == len(psegs):
      return fields if mi == len(msegs) else None
    p = psegs[pi]
    m2 = re.match(r'^(.*?)<<([^<>]+)>>(.*)$', p)
    if m2:
      pre, name, post = m2.groups()
      # spans k >= 1 metric segments (joined with dots), shortest first
      for k in range(1, len(msegs) - mi + 1):
        chunk = '.'.join(msegs[mi:mi + k])
        if len(chunk) <= len(pre) + len(post):
          continue
        if not (chunk.startswith(pre) and chunk.endswith(post)):
          continue
        val = chunk[len(pre):len(chunk) - len(post)]
        f = dict(fields)
        f[name] = val
        r = rec(pi + 1, mi + k, f)
        if r is not None:
          return r
      return None
    if mi >= len(msegs):
      return None
    f = _match_segment(p, msegs[mi], fields)
    if f is None:
      return None
    return rec(pi + 1, mi + 1, f)

  fields = rec(0, 0, {})
  if fields is None:
    return None
  out = rule['out']
  for k, v in fields.items():
    out = out.replace('<%s>' % k, v)
  return out


class RefRulesFile(object):
  """Reference view of aggregation-rules.conf: re-read every 10 s when the file has
  been modified (documented: 'any time this file is modified, it will be re-read
  automatically'); a missing file means no rules.

  Once a re-read has been hit by an injected I/O error the reference no longer says
  which rule set is in force, only which ones it can be: the one in force before the
  error or any complete content the file has had since -- never anything else (e.g. the
  first lines of a file whose reading failed)."""

  def __init__(self, path, initial_text):
    self.path = path
    self.rules = parse_agg_rules(initial_text)
    self.mtime = os.path.getmtime(path) if os.path.exists(path) else 0.0
    self.nreloads = 0
    self.degraded = False
    self.cands = []

  def tick(self, faulted=False):
    if not os.path.exists(self.path):
      if self.degraded:
        self.cands.append([])
        return
      if self.rules:
        self.nreloads += 1
      self.rules = []
      return
    m = os.path.getmtime(self.path)
    if m <= self.mtime:
      return
    self.mtime = m
    with open(self.path, encoding='utf-8') as f:
      new = parse_agg_rules(f.read())
    if faulted or self.degraded:
      self.degraded = True
      self.cands.append(new)
    else:
      self.rules = new
    self.nreloads += 1

  def candidates(self):
    return [self.rules] + (self.cands if self.degraded else [])


def agg_rules_of(world):
  ref = getattr(world, 'ref_rules_file', None)
  if ref is not None:
    return ref.rules
  if not hasattr(world, '_agg_rules'):
    world._agg_rules = parse_agg_rules(world.w.cfg['files'].get('aggregation-rules.conf'))
  return world._agg_rules


def check_aggregated_key(world, metric, configured):
  if getattr(world, 'ref_rules_file', None) is not None and world.at_reload_instant():
    return
  router = world.router
  inner = world.hash_router
  try:
    got = set(router.getDestinations(metric))
  except Exception as e:
    world.ctx.violation('C16', 'routing-raises', type(e).__name__, 'getDestinations(%r) raised %r' % (metric, e))
    return
  ref = getattr(world, 'ref_rules_file', None)
  cands = ref.candidates() if ref is not None else [agg_rules_of(world)]
  first = None
  for rules in cands:
    bad = None
    aggs = [a for a in (ref_agg_match(r, metric) for r in rules) if a is not None]
    if aggs:
      world.ctx.sigs.add('aggmatch:%d' % len(aggs))
      for a in aggs:
        need = set(inner.getDestinations(a))
        if not need <= got:
          bad = ('aggregate-inputs-split',
                 'metric %r feeds aggregate %r whose hash destinations are %r, but it is '
                 'routed to %r' % (metric, a, sorted(need), sorted(got)))
          break
    else:
      own = set(inner.getDestinations(metric))
      if got != own:
        bad = ('unaggregated-routing-differs',
               'metric %r matches no aggregation rule; routed to %r, its own hash '
               'destinations are %r' % (metric, sorted(got), sorted(own)))
    if bad is None:
      first = None
      break
    if first is None:
      first = bad
  if first is not None:
    note = '' if len(cands) == 1 else ' (nor does any of the %d rule sets possible after the failed re-read fit)' % len(cands)
    world.ctx.violation('C16', first[0], 'aggregated', first[1] + note)
  for d in got:
    if d not in configured:
      world.ctx.violation('C16', 'unconfigured-destination', 'aggregated', 'metric %r -> %r' % (metric, d))


def check_aggregated_sweep(world, configured):
  for m in RULE_NAMES:
    check_aggregated_key(world, m, configured)
