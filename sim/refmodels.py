"""Small executable reference models, written from the property statements and
the public documentation (conf/*.example), not from the implementation."""
import math


class RefCache(object):
  """dict of dict + admission rule."""

  def __init__(self, hard_max):
    self.hard_max = hard_max
    self.d = {}
    self.size = 0
    self.step = 0
    self.hist = {}          # metric -> [(step, snapshot dict)]

  def _snap(self, m):
    self.hist.setdefault(m, []).append((self.step, dict(self.d.get(m, {}))))

  def store(self, m, ts, v):
    self.step += 1
    cur = self.d.get(m)
    if cur is not None and ts in cur:
      cur[ts] = v
      self._snap(m)
      return 'dup'
    if self.size >= self.hard_max:
      return 'overflow'
    self.d.setdefault(m, {})[ts] = v
    self.size += 1
    self._snap(m)
    return 'ok'

  def pop(self, m):
    self.step += 1
    if m not in self.d:
      return None
    items = self.d.pop(m)
    self.size -= len(items)
    self._snap(m)
    return sorted(items.items())

  def counts(self):
    return {m: len(v) for m, v in self.d.items()}

  def contents(self):
    return {m: dict(v) for m, v in self.d.items()}

  def values_between(self, m, s0, s1):
    """Every value metric m had at some step in [s0, s1]."""
    out = []
    last = {}
    for step, snap in self.hist.get(m, []):
      if step <= s0:
        last = snap
      elif step <= s1:
        out.append(snap)
    return [last] + out


class RefBucket(object):
  """Analytic token bucket: capacity, rate, continuous refill."""

  def __init__(self, capacity, rate, now):
    self.capacity = float(capacity)
    self.rate = float(rate)
    self.tokens = float(capacity)
    self.t = now

  def refill(self, now):
    if now > self.t:
      self.tokens = min(self.capacity, self.tokens + (now - self.t) * self.rate)
      self.t = now


class RefLazyBucket(object):
  """Token bucket with *lazy* refill (the semantics the property's "twice the
  burst" allowance describes): tokens already in the bucket are spent without
  looking at the clock; only when they do not suffice is the bucket topped up
  for the time since its last top-up, capped at the capacity.  A blocking
  acquisition sleeps exactly until the missing tokens have accrued and then goes
  into debt by the cost.  A limit change keeps the amount already consumed."""

  def __init__(self, capacity, rate, now):
    self.capacity, self.rate = float(capacity), float(rate)
    self.tokens = float(capacity)
    self.stamp = now

  def available(self, cost, now):
    if self.tokens >= cost:
      return True
    self.tokens = min(self.capacity, self.tokens + (now - self.stamp) * self.rate)
    self.stamp = now
    return self.tokens >= cost

  def acquire(self, cost, now, blocking):
    """-> (granted, wait seconds)"""
    if self.available(cost, now):
      self.tokens -= cost
      return True, 0.0
    if not blocking:
      return False, 0.0
    wait = max(0.0, self.stamp + (cost - self.tokens) / self.rate - now)
    self.tokens -= cost
    return True, wait

  def set_limits(self, capacity, rate):
    self.tokens += float(capacity) - self.capacity
    self.capacity, self.rate = float(capacity), float(rate)


def ref_parse_retention(s):
  """seconds-per-point:points with unit suffixes; duration -> duration // precision."""
  units = {'s': 1, 'm': 60, 'h': 3600, 'd': 86400, 'w': 604800, 'y': 31536000}
  prec, pts = s.strip().split(':')

  def val(x):
    if x.isdigit():
      return int(x), False
    num = x.rstrip('abcdefghijklmnopqrstuvwxyz')
    unit = x[len(num):]
    return int(num) * units[unit], True
  p, _ = val(prec)
  n, is_duration = val(pts)
  if is_duration:
    n = n // p
  return (p, n)


def feq(a, b, rel=1e-9):
  if a == b:
    return True
  if isinstance(a, float) and isinstance(b, float) and math.isnan(a) and math.isnan(b):
    return True
  try:
    return abs(a - b) <= rel * max(abs(a), abs(b), 1e-300)
  except Exception:
    return False


# ---------------------------------------------------------------------------
# Consistent-hash ring: independent implementation of the published
# carbon_ch / fnv1a_ch algorithm (the one graphite-web and carbon-c-relay
# implement): 100 replicas per node, replica key "('server', 'instance'):i"
# hashed with md5[:4] (carbon_ch) or "i-instance" hashed with folded 32-bit
# FNV-1a (fnv1a_ch), +1 bump while the position is taken, clockwise walk.
# ---------------------------------------------------------------------------
import hashlib as _hashlib
import bisect as _bisect


def ref_fnv1a_fold(data):
  h = 0x811c9dc5
  for b in data:
    h ^= b
    h = (h * 0x01000193) & 0xffffffff
  return (h >> 16) ^ (h & 0xffff)


def ref_position(key, hash_type):
  if hash_type == 'fnv1a_ch':
    return ref_fnv1a_fold(key.encode('utf-8'))
  return int(_hashlib.md5(key.encode('utf-8')).hexdigest()[:4], 16)


class RefRing(object):
  REPLICAS = 100

  def __init__(self, hash_type='carbon_ch', nodes=()):
    self.hash_type = hash_type or 'carbon_ch'
    self.entries = []        # sorted [(position, node, raw position)]
    self.nodes = []
    for n in nodes:
      self.add(n)

  def replica_key(self, node, i):
    if self.hash_type == 'fnv1a_ch':
      return '%d-%s' % (i, node[1])
    return "('%s', %s):%d" % (node[0], "'%s'" % node[1] if node[1] is not None else 'None', i)

  def add(self, node):
    if node not in self.nodes:
      self.nodes.append(node)
    taken = set(e[0] for e in self.entries)
    for i in range(self.REPLICAS):
      raw = ref_position(self.replica_key(node, i), self.hash_type)
      pos = raw
      while pos in taken:
        pos += 1
      taken.add(pos)
      _bisect.insort(self.entries, (pos, node, raw))

  def remove(self, node):
    self.nodes = [n for n in self.nodes if n != node]
    self.entries = [e for e in self.entries if e[1] != node]

  def walk(self, position):
    """Preference order of nodes for a key hashing to `position` (the published
    loop: start at the first entry >= position, stop one entry short of a full
    turn or when every node has been seen)."""
    out = []
    n = len(self.entries)
    if not n:
      return out
    if len(self.nodes) == 1:
      return [self.nodes[0]]
    idx = _bisect.bisect_left(self.entries, (position,)) % n
    last = (idx - 1) % n
    seen = set()
    while len(seen) < len(self.nodes) and idx != last:
      node = self.entries[idx][1]
      if node not in seen:
        seen.add(node)
        out.append(node)
      idx = (idx + 1) % n
    return out

  def clusters(self):
    """Intervals [raw, final] of every entry that was bumped off its hash position:
    any lookup landing inside one can be answered differently by a ring that
    inserted the colliding replicas in another order."""
    return [(e[2], e[0]) for e in self.entries if e[0] != e[2]]
