"""Small executable reference models, written from the property statements and
the public documentation (conf/*.example), not from the implementation."""
import math


class RefCache(object):
  """dict of dict + admission rule."""

  def __init__(self, hard_max):
    self.hard_max = hard_max
    self.d = {}
    self.size = 0
    self.step = 0
    self.hist = {}          # metric -> [(step, snapshot dict)]

  def _snap(self, m):
    self.hist.setdefault(m, []).append((self.step, dict(self.d.get(m, {}))))

  def store(self, m, ts, v):
    self.step += 1
    cur = self.d.get(m)
    if cur is not None and ts in cur:
      cur[ts] = v
      self._snap(m)
      return 'dup'
    if self.size >= self.hard_max:
      return 'overflow'
    self.d.setdefault(m, {})[ts] = v
    self.size += 1
    self._snap(m)
    return 'ok'

  def pop(self, m):
    self.step += 1
    if m not in self.d:
      return None
    items = self.d.pop(m)
    self.size -= len(items)
    self._snap(m)
    return sorted(items.items())

  def counts(self):
    return {m: len(v) for m, v in self.d.items()}

  def contents(self):
    return {m: dict(v) for m, v in self.d.items()}

  def values_between(self, m, s0, s1):
    """Every value metric m had at some step in [s0, s1]."""
    out = []
    last = {}
    for step, snap in self.hist.get(m, []):
      if step <= s0:
        last = snap
      elif step <= s1:
        out.append(snap)
    return [last] + out


class RefBucket(object):
  """Analytic token bucket: capacity, rate, continuous refill."""

  def __init__(self, capacity, rate, now):
    self.capacity = float(capacity)
    self.rate = float(rate)
    self.tokens = float(capacity)
    self.t = now

  def refill(self, now):
    if now > self.t:
      self.tokens = min(self.capacity, self.tokens + (now - self.t) * self.rate)
      self.t = now


class RefLazyBucket(object):
  """Token bucket with *lazy* refill (the semantics the property's "twice the
  burst" allowance describes): tokens already in the bucket are spent without
  looking at the clock; only when they do not suffice is the bucket topped up
  for the time since its last top-up, capped at the capacity.  A blocking
  acquisition sleeps exactly until the missing tokens have accrued and then goes
  into debt by the cost.  A limit change keeps the amount already consumed."""

  def __init__(self, capacity, rate, now):
    self.capacity, self.rate = float(capacity), float(rate)
    self.tokens = float(capacity)
    self.stamp = now

  def available(self, cost, now):
    if self.tokens >= cost:
      return True
    self.tokens = min(self.capacity, self.tokens + (now - self.stamp) * self.rate)
    self.stamp = now
    return self.tokens >= cost

  def acquire(self, cost, now, blocking):
    """-> (granted, wait seconds)"""
    if self.available(cost, now):
      self.tokens -= cost
      return True, 0.0
    if not blocking:
      return False, 0.0
    wait = max(0.0, self.stamp + (cost - self.tokens) / self.rate - now)
    self.tokens -= cost
    return True, wait

  def set_limits(self, capacity, rate):
    self.tokens += float(capacity) - self.capacity
    self.capacity, self.rate = float(capacity), float(rate)


def ref_parse_retention(s):
  """seconds-per-point:points with unit suffixes; duration -> duration // precision."""
  units = {'s': 1, 'm': 60, 'h': 3600, 'd': 86400, 'w': 604800, 'y': 31536000}
  prec, pts = s.strip().split(':')

  def val(x):
    if x.isdigit():
      return int(x), False
    num = x.rstrip('abcdefghijklmnopqrstuvwxyz')
    unit = x[len(num):]
    return int(num) * units[unit], True
  p, _ = val(prec)
  n, is_duration = val(pts)
  if is_duration:
    n = n // p
  return (p, n)


def feq(a, b, rel=1e-9):
  if a == b:
    return True
  if isinstance(a, float) and isinstance(b, float) and math.isnan(a) and math.isnan(b):
    return True
  try:
    return abs(a - b) <= rel * max(abs(a), abs(b), 1e-300)
  except Exception:
    return False
