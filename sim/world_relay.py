"""World C: the full carbon-relay daemon plus N simulated downstream peers.

The relay is booted through its real option parser and createRelayService();
its CarbonClientFactory instances connect through SimReactor.connectTCP, so
connect success / refusal / timeout, connection reset, stalled peers (transport
back-pressure), flapping and timer order are decided by the plan and the run's
Choices.  Every destination's peer is a real listener protocol
(MetricPickleReceiver / MetricLineReceiver) fed from the bytes the peer read,
re-segmented arbitrarily.

Oracles: C07 (queues), C09 relay side (back-pressure release), C15 (codec),
C05 / C06 / C16 (routing under membership history).
"""
import pickle
import struct

from twisted.python import log as txlog
from twisted.internet import error

from . import refmodels
from .refmodels import RefRing


def ulp(x):
  import math
  return math.ulp(x) if hasattr(math, 'ulp') else abs(x) * 2.3e-16


class Dest(object):
  def __init__(self, dest):
    self.dest = dest
    self.factory = None
    self.accepted = []        # [(aid, metric, dp, is_self)]
    self.written = []         # decoded [(metric, dp)] in write order
    self.written_self = 0
    self.conns = []
    self.stalled = False
    self.decode_buf = {}      # transport -> bytes not yet decoded (write side)
    self.peer_buf = {}        # transport -> bytes read by the peer, not yet fed downstream
    self.peer_proto = {}      # transport -> downstream listener protocol
    self.peer_got = []        # what the downstream listener decoded
    self.peer_fed = 0
    self.dn_paused = {}       # transport -> the downstream listener has paused reading
    self.dn_last = {}         # transport -> when the downstream listener last ingested a datapoint
    self.fails_since_connect = 0
    self.stop_requested = False   # stopClient() was called for it (removal on request)
    self.unwritten_start = 0  # index into accepted(non-self) of first not yet written
    self.removed_epochs = 0


class RelayWorld(object):
  def __init__(self, w, plan, ctx, finish):
    self.w, self.plan, self.ctx, self.finish_cb = w, plan, ctx, finish
    self.r = w.reactor
    self.settings = w.settings
    self.mgr = w.state.client_manager
    self.router = self.mgr.router
    self.cl = w.client_mod
    self.dests = {}
    self.order = []
    self.aid = 0
    self.accept_log = []       # per event: (dest, metric, dp, outcome)
    self.stopping = False
    self.proto_kind = self.settings.DESTINATION_PROTOCOL
    self.dn_points = set(plan.get('dn_pause') or ())   # downstream pauses after its n-th datapoint
    self.dn_count = 0
    self.dn_idle = plan.get('dn_idle')
    # limits derived from the configuration as the documentation states them, not read
    # back from the module under test
    cs = w.cfg['settings']
    mq = cs.get('MAX_QUEUE_SIZE', 10000)
    self.low_wm = mq * cs.get('QUEUE_LOW_WATERMARK_PCT', 0.8)
    self.hard_max = mq * cs.get('MAX_QUEUE_SIZE_HARD_PCT', 1.25) if cs.get('USE_FLOW_CONTROL', True) else mq
    self.receivers = []
    self.errors_logged = []
    self.member_ops = []       # history of router add/remove: ('add'|'remove', dest)
    self.ref_ring = None
    self.prop = plan.get('prop', 'C07')
    self.route_checks = plan.get('route_checks', False)
    self.paused_seen = False
    self.removed_in_event = set()
    self.changes_since_sweep = []

  # ------------------------------------------------------------------ set-up
  def install(self):
    w, r = self.w, self.r
    txlog.addObserver(self.log_observer)
    for dest, f in self.mgr.client_factories.items():
      if dest is None:
        self.fake = f
        continue
      d = Dest(dest)
      d.factory = f
      self.dests[dest] = d
      self.order.append(dest)
      self.wrap_factory(d)
    self.reported = {}
    self.drops_seen = {}
    inst = w.instrumentation
    real_rr = inst.relay_record
    me = self

    def relay_record(metric, value):
      me.reported[metric] = me.reported.get(metric, 0) + (value if isinstance(value, (int, float)) else 0)
      return real_rr(metric, value)
    inst.relay_record = relay_record
    r.on_out_connect = self.on_out_connect
    for c in r.connectors:
      pass
    # existing outgoing transports (none at boot) and pending connectors are fine
    self.install_router_mirror()
    if self.settings.RELAY_METHOD in ('aggregated-consistent-hashing', 'fast-aggregated-hashing'):
      import os
      from .props import routeprops
      path = os.path.join(os.environ['GRAPHITE_ROOT'], 'conf', 'aggregation-rules.conf')
      self.ref_rules_file = routeprops.RefRulesFile(path, self.w.cfg['files'].get('aggregation-rules.conf'))
      self.t0 = r.seconds()
      r.callLater(10.0, self.ref_rules_tick)
      self.install_rules_fault_seam(path)
    # tie-break randomness inside twisted's reconnect back-off
    import random as _random
    self.w.tip.random = _random.Random(self.plan.get('jitter_seed', 1))

  def install_rules_fault_seam(self, path):
    """carbon.aggregator.rules reads its file with the builtin open(): a module-level
    `open` of ours can make that read fail (EIO at open, or after the first line)."""
    import errno
    import carbon.aggregator.rules as crules
    self.rules_fault_armed = None
    self.rules_fault_fired_at = None
    me = self

    class FailingLines(object):
      def __init__(self, f):
        self.f, self.n = f, 0

      def __iter__(self):
        return self

      def __next__(self):
        if self.n >= 1:
          self.f.close()
          raise IOError(errno.EIO, 'Input/output error (injected)', path)
        self.n += 1
        return next(self.f)

    def sim_open(name, *a, **kw):
      f = open(name, *a, **kw)
      if name == path and me.rules_fault_armed:
        mode, me.rules_fault_armed = me.rules_fault_armed, None
        me.rules_fault_fired_at = me.r.seconds()
        me.ctx.fault('rules_file_read_error_' + mode)
        if mode == 'open':
          f.close()
          raise IOError(errno.EIO, 'Input/output error (injected)', path)
        return FailingLines(f)
      return f
    crules.open = sim_open

    # the name cache of every rule reads a monotonic clock that may move on between two
    # reads (the process was descheduled): decided by the run's choices
    timer = getattr(self.w, 'ttl_timer', None)
    if timer is not None:
      self.ttl_skew = 0.0
      jump = float(self.settings.CACHE_METRIC_NAMES_TTL or 0) + 0.5

      import sys

      self.ttl_prev_test = False

      def ttl_time():
        # the clock moves on between a membership test and the read that follows it (the
        # only pair of reads an entry can expire between unnoticed)
        f, is_test = sys._getframe(1), False
        for _ in range(3):
          if f is None:
            break
          if f.f_code.co_name == '__contains__':
            is_test = True
            break
          f = f.f_back
        after_test, me.ttl_prev_test = me.ttl_prev_test, is_test
        if after_test and not is_test and me.ctx.ch.pick('ttlclock', 2) == 1:
          me.ttl_skew += jump
          me.ctx.fault('name_cache_clock_moves_between_reads')
        return me.r.seconds() + me.ttl_skew
      timer.fn = ttl_time

  def ref_rules_tick(self):
    n = self.ref_rules_file.nreloads
    faulted = bool(self.rules_fault_armed) or self.rules_fault_fired_at == self.r.seconds()
    self.ref_rules_file.tick(faulted)
    if self.ref_rules_file.nreloads != n:
      self.ctx.probe('aggregation_rules_reloaded')
    if self.r.running:
      self.r.callLater(10.0, self.ref_rules_tick)

  def at_reload_instant(self):
    dt = (self.r.seconds() - self.t0) % 10.0
    return dt < 1e-9 or 10.0 - dt < 1e-9

  def log_observer(self, event):
    if event.get('isError'):
      f = event.get('failure')
      self.errors_logged.append(f.type.__name__ if f is not None else 'err')
      self.ctx.log.add('log-err', self.errors_logged[-1])

  def wrap_factory(self, d):
    f = d.factory
    stats = self.w.instrumentation.stats
    real_send, real_hi = f.sendDatapoint, f.sendHighPriorityDatapoint
    me = self

    def sendDatapoint(metric, datapoint):
      drops0 = stats.get(f.fullQueueDrops, 0)
      att0 = stats.get(f.attemptedRelays, 0)
      q0 = f.queueSize
      real_send(metric, datapoint)
      dropped = stats.get(f.fullQueueDrops, 0) - drops0
      me.on_accept(d, metric, datapoint, False, dropped, q0, stats.get(f.attemptedRelays, 0) - att0)

    def sendHighPriorityDatapoint(metric, datapoint):
      q0 = f.queueSize
      real_hi(metric, datapoint)
      me.on_accept(d, metric, datapoint, True, 0, q0, 1)

    f.sendDatapoint = sendDatapoint
    f.sendHighPriorityDatapoint = sendHighPriorityDatapoint
    # connection attempts that ended (lost or failed) since the last one that succeeded
    real_lost, real_failed = f.clientConnectionLost, f.clientConnectionFailed

    def clientConnectionLost(connector, reason):
      d.fails_since_connect += 1
      return real_lost(connector, reason)

    def clientConnectionFailed(connector, reason):
      d.fails_since_connect += 1
      return real_failed(connector, reason)
    f.clientConnectionLost = clientConnectionLost
    f.clientConnectionFailed = clientConnectionFailed

  def on_accept(self, d, metric, dp, hi_priority, dropped, q0, attempts):
    # a self-metric stays one (exempt from ordering and from the bound) when a
    # dynamic router re-injects it through the ordinary path
    is_self = str(metric).startswith('carbon.self.')
    if hi_priority:
      is_self = True
    elif is_self:
      # re-injected self metric: ordinary admission, but may be refused like any datapoint
      pass
    hard = self.hard_max
    mx = self.settings.MAX_QUEUE_SIZE
    f = d.factory
    if not hi_priority and not self.router.hasDestination(d.dest):
      # (also C07: a destination the router has given up gets nothing new to lose)
      for pr in ('C16', 'C07'):
        self.ctx.violation(pr, 'queued-for-unconfigured-destination', 'sendDatapoint',
                           'datapoint %r was handed to %s, which the router does not have configured at '
                           'that moment (configured: %d destinations)' % (
                             metric, d.dest, self.router.countDestinations()))
    if not hi_priority:
      if attempts != 1:
        self.ctx.violation('C07', 'attempt-not-counted', 'attemptedRelays',
                           'sendDatapoint changed attemptedRelays by %d' % attempts)
      if dropped:
        self.drops_seen[f.fullQueueDrops] = self.drops_seen.get(f.fullQueueDrops, 0) + dropped
        self.ctx.probe('full_queue_drop')
        if q0 < hard or q0 < mx:
          self.ctx.violation('C07', 'drop-below-hard-limit', 'sendDatapoint',
                             '%s discarded %r with %d queued; hard limit %r' % (d.dest, metric, q0, hard))
        if f.queueSize != q0:
          self.ctx.violation('C07', 'drop-changed-queue', 'sendDatapoint',
                             'discard changed the queue size %d -> %d' % (q0, f.queueSize))
        self.accept_log.append((d.dest, metric, dp, 'dropped'))
        return
      if f.queueSize != q0 + 1:
        self.ctx.violation('C07', 'silent-discard', 'sendDatapoint',
                           '%s: sendDatapoint(%r) neither queued the datapoint (size %d -> %d) nor '
                           'counted a drop' % (d.dest, metric, q0, f.queueSize))
        return
      if q0 >= hard:
        self.ctx.violation('C07', 'accepted-beyond-hard-limit', 'sendDatapoint',
                           '%s accepted %r with %d already queued; hard limit %r' % (d.dest, metric, q0, hard))
    self.aid += 1
    d.accepted.append((self.aid, metric, dp, is_self))
    self.accept_log.append((d.dest, metric, dp, 'accepted'))
    self.check_queue_bound(d)

  def check_queue_bound(self, d):
    hard = self.hard_max
    f = d.factory
    nself = sum(1 for (m, dp) in f.queue if str(m).startswith('carbon.self.'))
    size = f.queueSize - nself
    if size > hard:
      over = size - hard
      integral = float(hard) == int(hard)
      clause = 'queue-bound-exceeded' if (integral or over >= 1) else 'queue-bound-exceeded-fractional-limit'
      self.ctx.violation('C07', clause, 'queue',
                         '%s holds %d datapoints (excluding %d self-metrics); hard limit %r'
                         % (d.dest, size, nself, hard))

  # ------------------------------------------------------------------ connections
  def on_out_connect(self, connector, transport):
    dest = None
    for dd in self.dests.values():
      if dd.factory is connector.factory:
        dest = dd
    if dest is None:
      return
    dest.fails_since_connect = 0
    transport.bufferSize = self.plan.get('bufsize', 65536)
    transport.close_delay = self.plan.get('close_delay', 0.0)
    transport.peer_eager = not dest.stalled
    transport.on_write = lambda t, data, d=dest: self.on_write(d, t, data)
    dest.conns.append(transport)
    dest.decode_buf[transport] = b''
    dest.peer_buf[transport] = b''
    real_lose = transport.loseConnection

    def loseConnection(t=transport, d=dest):
      self.on_lose(d, t)
      real_lose()
    transport.loseConnection = loseConnection
    self.ctx.probe('connection_made')
    real_disc = None

  def on_lose(self, d, t):
    # only a close initiated by the stop itself (factory.stopConnecting), not e.g. a
    # connection-quality reset that happens to occur while the daemon is stopping
    import sys
    f = sys._getframe(1)
    by_stop = False
    while f is not None:
      if f.f_code.co_name == 'stopConnecting':
        by_stop = True
        break
      f = f.f_back
    if self.stopping and by_stop and not t.disconnected and not t.disconnecting:
      self.ctx.probe('stop_closed_connected_destination')
      normal = [a for a in d.accepted if not a[3]]
      unwritten = len(normal) - d.unwritten_start
      if d.factory.queue or unwritten:
        self.ctx.violation('C07', 'stop-closed-before-flush', 'stop',
                           '%s: connection closed by the stop with %d accepted datapoints not yet '
                           'written (%d still queued)' % (d.dest, unwritten, len(d.factory.queue)))

  def on_write(self, d, t, data):
    buf = d.decode_buf.get(t, b'') + data
    out = []
    if self.proto_kind == 'pickle':
      while len(buf) >= 4:
        n = struct.unpack('!I', buf[:4])[0]
        if len(buf) < 4 + n:
          break
        body, buf = buf[4:4 + n], buf[4 + n:]
        try:
          for m, dp in pickle.loads(body):
            out.append((m, tuple(dp)))
        except Exception as e:
          self.ctx.violation('C15', 'undecodable-frame', 'pickle', 'harness decoder: %r' % (e,))
        self.ctx.sigs.add('batch:%d' % min(len(out), 40))
    else:
      while b'\n' in buf:
        line, buf = buf.split(b'\n', 1)
        line = line.rstrip(b'\r')
        parts = line.decode('utf-8').split(' ')
        if len(parts) == 3:
          try:
            out.append((parts[0], (float(parts[2]), float(parts[1]))))
          except ValueError:
            self.ctx.violation('C15', 'undecodable-line', 'line', 'client wrote %r' % (line,))
        else:
          self.ctx.violation('C15', 'undecodable-line', 'line', 'client wrote %r' % (line,))
    d.decode_buf[t] = buf
    for m, dp in out:
      self.note_written(d, m, dp)

  def values_match(self, sent_dp, got_dp):
    """Wire fidelity: pickle exact; line: int(ts), |dv| <= 5e-11 or 1 ulp."""
    if self.proto_kind == 'pickle':
      return sent_dp[0] == got_dp[0] and (sent_dp[1] == got_dp[1])
    try:
      if int(sent_dp[0]) != got_dp[0]:
        return False
    except (OverflowError, ValueError):
      return False
    a, b = float(sent_dp[1]), got_dp[1]
    if a == b:
      return True
    if abs(a - b) <= 5e-11 or abs(a - b) <= ulp(a):
      return True
    if abs(a - b) <= 5e-11 + ulp(a):
      # decimal rounding to 10 places (<= 5e-11) followed by nearest-double parsing
      # (<= half an ulp): recorded as a finding of its own, not as corruption
      self.ctx.violation('C15', 'wire-value-double-rounding', 'line',
                         'value %r was written as %r: off by %.3e, i.e. more than 5e-11 and more than '
                         'one ulp (%.3e) but within 5e-11 + 1 ulp' % (a, b, abs(a - b), ulp(a)))
      return True
    return False

  def note_written(self, d, m, dp):
    if str(m).startswith('carbon.self.'):
      cand = [a for a in d.accepted if a[3] and a[1] == m]
      seen = sum(1 for (mm, _) in d.written if mm == m)
      d.written.append((m, dp))
      if not cand:
        self.ctx.violation('C07', 'unknown-self-metric-written', 'write', '%s wrote %r' % (d.dest, m))
      elif seen >= len(cand):
        self.ctx.violation('C07', 'self-metric-written-twice', 'write', '%s wrote %r %d times'
                           % (d.dest, m, seen + 1))
      return
    d.written.append((m, dp))
    normal = [a for a in d.accepted if not a[3]]
    i = d.unwritten_start
    if i >= len(normal):
      self.ctx.violation('C07', 'wrote-unaccepted', 'write',
                         '%s wrote %r %r but every accepted datapoint was already written '
                         '(duplicate or invented)' % (d.dest, m, dp))
      return
    exp = normal[i]
    if exp[1] != m or not self.values_match(exp[2], dp):
      # classify: reordering / loss / duplication / corruption
      later = [k for k in range(i, len(normal)) if normal[k][1] == m and self.values_match(normal[k][2], dp)]
      earlier = [k for k in range(0, i) if normal[k][1] == m and self.values_match(normal[k][2], dp)]
      if later:
        clause, prop = 'out-of-order-or-lost', 'C07'
      elif earlier:
        clause, prop = 'duplicate-write', 'C07'
      else:
        clause, prop = 'wire-value-differs', 'C15'
      for pr in sorted(set([prop, 'C15'])):
        # C15: splitting the queue into messages never merges, reorders or drops datapoints
        self.ctx.violation(pr, clause, self.proto_kind,
                           '%s wrote (%r, %r); next accepted-but-unwritten datapoint is (%r, %r)'
                           % (d.dest, m, dp, exp[1], exp[2]))
      if later:
        d.unwritten_start = later[0] + 1
      return
    d.unwritten_start = i + 1

  # ------------------------------------------------------------------ downstream listener (C15)
  def feed_downstream(self, d, t, nsplit):
    """The peer hands what it read to a real listener protocol in segments."""
    data = bytes(t.delivered[d.peer_fed_of(t):]) if False else None
    return data

  def pump_peers(self, final=False):
    """Move bytes the peers have read into real downstream listener protocols.  The
    downstream daemon may pause its receivers from inside a chunk (its cache filled up
    while a frame was being stored) and resumes at a later event."""
    P = self.w.protocols
    ev = self.w.events.metricReceived
    points = self.dn_points
    for d in self.dests.values():
      for t in d.conns:
        proto = d.peer_proto.get(t)
        if proto is not None and proto.transport.disconnected:
          continue                  # the downstream end is closed: nobody reads any more
        if proto is not None and d.dn_paused.get(t):
          d.dn_paused[t] = False
          proto.resumeReceiving()
          self.ctx.probe('downstream_listener_resumed')
        off = getattr(t, '_fed', 0)
        data = bytes(t.delivered[off:])
        if not data:
          continue
        if proto is None:
          proto = (P.MetricPickleReceiver if self.proto_kind == 'pickle' else P.MetricLineReceiver)()
          from .reactor import SimTransport
          proto.makeConnection(SimTransport(self.r, label='downstream',
                                            on_close=lambda tr, f, d=d, t=t, proto=proto:
                                            self.downstream_closed(d, t, proto, f)))
          d.peer_proto[t] = proto
          d.dn_last[t] = self.r.seconds()
          if self.dn_idle:
            # the downstream daemon runs with METRIC_CLIENT_IDLE_TIMEOUT
            proto.setTimeout(self.dn_idle)
        saved = ev.handlers
        got = d.peer_got

        def handler(metric, datapoint, got=got, d=d, t=t, proto=proto):
          got.append((metric, tuple(datapoint)))
          d.dn_last[t] = self.r.seconds()
          self.dn_count += 1
          if self.dn_count in points and not final:
            d.dn_paused[t] = True
            self.ctx.fault('downstream_pause_inside_a_chunk')
            proto.pauseReceiving()
        ev.handlers = [handler]
        pos = 0
        try:
          while pos < len(data):
            k = 1 + self.ctx.ch.pick('reseg', 7) * self.ctx.ch.pick('reseg2', 40)
            proto.dataReceived(data[pos:pos + k])
            pos += k
            if d.dn_paused.get(t):
              break                 # a paused transport reads nothing more for now
        except Exception as e:
          self.ctx.violation('C15', 'downstream-exception', type(e).__name__,
                             'downstream %s listener raised %r' % (self.proto_kind, e))
          pos = len(data)
        finally:
          ev.handlers = saved
        t._fed = off + min(pos, len(data))

  def downstream_closed(self, d, t, proto, reason):
    """The downstream listener closed the connection: legitimate only as its idle timeout."""
    idle = self.r.seconds() - d.dn_last.get(t, self.r.seconds())
    if self.dn_idle and idle >= self.dn_idle - 1e-6:
      self.ctx.fault('downstream_idle_timeout_closed_connection')
    else:
      self.ctx.violation('C15', 'downstream-closed-active-connection', self.proto_kind,
                         '%s: the %s listener closed the connection of the relay %.3f s after the last '
                         'datapoint it ingested on it (idle timeout %r)' % (
                           d.dest, self.proto_kind, idle, self.dn_idle))
    try:
      proto.connectionLost(reason)
    except Exception as e:
      self.ctx.violation('C15', 'downstream-exception', type(e).__name__,
                         'downstream connectionLost raised %r' % (e,))
    if not t.disconnected:
      t.peer_close()

  def count_complete(self, data):
    """Datapoints in the complete frames / lines of a byte string (harness decoder)."""
    n = 0
    if self.proto_kind == 'pickle':
      while len(data) >= 4:
        k = struct.unpack('!I', data[:4])[0]
        if len(data) < 4 + k:
          break
        try:
          n += len(pickle.loads(data[4:4 + k]))
        except Exception:
          pass
        data = data[4 + k:]
      return n
    return data.count(b'\n')

  def check_downstream(self):
    """C15: what the real downstream listener decoded equals what the client wrote
    (for data the peer has read in full)."""
    # everything the peers have read reaches the listeners (two rounds: resume, then feed)
    self.pump_peers(final=True)
    self.pump_peers(final=True)
    for d in self.dests.values():
      got = d.peer_got
      wrote = d.written
      n = len(got)
      fed = sum(self.count_complete(bytes(t.delivered[:getattr(t, '_fed', 0)])) for t in d.conns)
      if n < fed:
        self.ctx.violation('C15', 'downstream-lost', self.proto_kind,
                           '%s: the peer read %d complete datapoints and handed them to the %s '
                           'listener, which ingested only %d (connections open, receivers resumed, '
                           'nothing more to come)' % (d.dest, fed, self.proto_kind, n))
      if n > len(wrote):
        self.ctx.violation('C15', 'downstream-extra', self.proto_kind,
                           '%s: listener decoded %d datapoints, client wrote %d' % (d.dest, n, len(wrote)))
        continue
      # resets lose unread data: got must be a subsequence made of per-connection prefixes;
      # with no reset it is a prefix.  Compare as a subsequence in order.
      j = 0
      for (m, dp) in got:
        while j < len(wrote) and not (wrote[j][0] == m and self.same_dp(wrote[j][1], dp)):
          j += 1
        if j >= len(wrote):
          self.ctx.violation('C15', 'downstream-differs', self.proto_kind,
                             '%s: listener decoded (%r, %r) which the client did not write in that '
                             'order' % (d.dest, m, dp))
          break
        j += 1

  @staticmethod
  def same_dp(wrote, got):
    """The listener hands floats to the pipeline: compare against float(written)."""
    try:
      return float(wrote[0]) == got[0] and float(wrote[1]) == got[1]
    except (OverflowError, ValueError, TypeError):
      return False

  # ------------------------------------------------------------------ router mirror (C05 C06 C16)
  def install_router_mirror(self):
    router = self.router
    inner = getattr(router, 'hash_router', router)
    self.hash_router = inner if hasattr(inner, 'ring') else None
    real_add, real_rm = router.addDestination, router.removeDestination
    me = self

    def addDestination(dest):
      real_add(dest)
      me.member_ops.append(('add', dest))
      me.membership_changed('add', dest)

    def removeDestination(dest):
      before = me.snapshot_prefs() if me.route_checks else None
      dd = me.dests.get(dest)
      need = me.settings.DYNAMIC_ROUTER_MAX_RETRIES
      if dd is not None and not me.stopping and dd.fails_since_connect < need and not dd.stop_requested:
        # the dynamic router gives a destination up after DYNAMIC_ROUTER_MAX_RETRIES
        # connection attempts in a row have ended badly, not before
        me.ctx.violation('C06', 'destination-removed-although-it-reconnects', 'dynamic-router',
                         '%s was taken out of the ring after %d connection loss(es)/failure(s) since '
                         'its last successful connection; DYNAMIC_ROUTER_MAX_RETRIES is %d' % (
                           dest, dd.fails_since_connect, need))
      real_rm(dest)
      me.member_ops.append(('remove', dest))
      me.membership_changed('remove', dest, before)
    router.addDestination = addDestination
    router.removeDestination = removeDestination
    # destinations added at boot (static router) came in configuration order
    self.boot_members = [d for d in self.w.util.parseDestinations(self.settings.DESTINATIONS)
                         if router.hasDestination(d)]
    for d in self.boot_members:
      self.member_ops.append(('add', d))

  def membership_changed(self, op, dest, before=None):
    if op == 'remove':
      self.removed_in_event.add(dest)
    self.ctx.probe('membership_' + op)
    self.ctx.log.add('member', op, dest)
    if self.route_checks:
      # most runs look at the routing after every single change; some only every few
      # changes, so that state remembered across two changes is not refreshed by the
      # harness's own lookups in between
      self.changes_since_sweep.append((op, dest))
      every = self.plan.get('route_check_every', 1)
      if len(self.changes_since_sweep) >= every:
        self.sweep_routing()

  def sweep_routing(self):
    ch, self.changes_since_sweep = self.changes_since_sweep, []
    if not ch:
      return
    if len(ch) == 1:
      self.check_routing(ch[0][0], ch[0][1], None)
    else:
      self.ctx.probe('routing_checked_after_several_changes')
      self.check_routing('several', None, None)

  def snapshot_prefs(self):
    return None

  def check_routing(self, op=None, dest=None, before=None):
    from .props import routeprops
    routeprops.check_routing(self, op, dest)

  # ------------------------------------------------------------------ events
  def begin_event(self):
    self.accept_log = []
    self.removed_in_event = set()
    self.q_before = {dest: list(d.factory.queue) for dest, d in self.dests.items()}
    self.fake_before = list(self.fake.queue)
    self.members_before = set(dest for dest in self.dests if self.router.hasDestination(dest))

  def end_event(self, what):
    st = self.w.state
    if st.metricReceiversPaused:
      self.paused_seen = True
    # dynamic-router removal: queued datapoints must be re-routed, not lost
    for dest, d in self.dests.items():
      qb = self.q_before.get(dest, [])
      if dest in self.removed_in_event:
        self.ctx.probe('destination_removed')
        if qb:
          self.ctx.probe('destination_removed_with_nonempty_queue')
        if d.factory.queueFull.called:
          self.ctx.probe('destination_removed_while_reported_full')
        if not d.factory.queue:
          # everything it still owed (queued before the event or accepted during it)
          normal = [a for a in d.accepted if not a[3]]
          owed = [(a[1], tuple(a[2])) for a in normal[d.unwritten_start:]]
          if owed:
            self.moved(d, owed, what)
      self.check_queue_bound(d)
    if self.fake_before and not self.fake.queue:
      self.ctx.probe('holding_buffer_reinjected')
      self.moved(None, self.fake_before, what)
    # conservation: what a destination has accepted and not yet written is exactly what
    # its queue holds (self-metrics aside) -- nothing vanishes, nothing is invented
    for dest, d in self.dests.items():
      normal = [a for a in d.accepted if not a[3]]
      owed = [(a[1], tuple(a[2])) for a in normal[d.unwritten_start:]]
      queued = [(m, tuple(dp)) for (m, dp) in d.factory.queue if not str(m).startswith('carbon.self.')]
      if owed != queued:
        missing = [x for x in owed if x not in queued]
        extra = [x for x in queued if x not in owed]
        clause = 'accepted-datapoint-vanished' if missing else ('queue-holds-unaccepted' if extra else
                                                                'queue-order-differs')
        for pr in (('C07', 'C15') if missing else ('C07',)):
          # C15: splitting the queue into messages never drops datapoints
          self.ctx.violation(pr, clause, what,
                             '%s after %s: accepted-but-unwritten %r, queue holds %r' % (
                               dest, what, owed[:6], queued[:6]))
        # resynchronise so that one loss is reported once
        keep = normal[:d.unwritten_start]
        qn = [a for a in normal[d.unwritten_start:] if (a[1], tuple(a[2])) in queued]
        d.accepted = keep + qn + [a for a in d.accepted if a[3]]
    sent_stat = 0
    self.pump_peers()

  def moved(self, d, items, what):
    """items left d's queue without being written: each must show up again in this
    event's accept log (accepted elsewhere, counted as dropped, or in the holding buffer)."""
    log = list(self.accept_log)
    held = list(self.fake.queue)
    for (m, dp) in items:
      if str(m).startswith('carbon.self.'):
        continue
      hit = None
      for i, (dest, mm, dd, outcome) in enumerate(log):
        if mm == m and tuple(dd) == tuple(dp) and (d is None or dest != d.dest):
          hit = i
          break
      if hit is not None:
        log.pop(hit)
        continue
      if (m, dp) in held:
        held.remove((m, dp))
        continue
      self.ctx.violation('C07', 'requeue-lost', 'destinationDown',
                         'datapoint (%r, %r) left the queue of %s during %s and was neither '
                         're-routed nor counted as dropped' % (m, dp, d.dest if d else 'holding buffer', what))
      break
    if d is not None:
      # they are no longer owed by d
      moved_set = [(m, tuple(dp)) for (m, dp) in items]
      normal = [a for a in d.accepted if not a[3]]
      keep_written = normal[:d.unwritten_start]
      d.accepted = keep_written + [a for a in d.accepted if a[3]]
      d.unwritten_start = len(keep_written)

  # ------------------------------------------------------------------ ops
  def connector_of(self, d):
    return getattr(d.factory, 'connector', None)

  def do_op(self, op):
    k = op[0]
    if self.r._stopped and not self.r.running:
      return          # the reactor has halted: nothing runs any more
    self.ctx.log.add('op', *[repr(x)[:60] for x in op])
    ds = [self.dests[x] for x in self.order]
    self.begin_event()
    if k == 'arrive':
      self.arrive(op[1], tuple(op[2]))
    elif k == 'chunk':
      self.chunk(op[1], op[2])
    elif k == 'self':
      self.mgr.sendHighPriorityDatapoint(op[1], tuple(op[2]))
    elif k in ('conn_ok', 'conn_refuse'):
      d = ds[op[1] % len(ds)]
      c = self.connector_of(d)
      if c is not None and c.state == 'connecting':
        if k == 'conn_ok':
          c.succeed()
        else:
          self.ctx.fault('connect_refused')
          c.refuse()
    elif k in ('reset', 'close'):
      d = ds[op[1] % len(ds)]
      live = [t for t in d.conns if not t.disconnected]
      if live:
        if live[-1].outbuf:
          self.ctx.fault('reset_with_unread_data')
        self.ctx.fault('connection_' + k)
        live[-1].peer_reset() if k == 'reset' else live[-1].peer_close()
    elif k == 'stall':
      d = ds[op[1] % len(ds)]
      d.stalled = True
      for t in d.conns:
        t.peer_eager = False
      self.ctx.fault('peer_stall')
    elif k == 'unstall':
      d = ds[op[1] % len(ds)]
      d.stalled = False
      for t in d.conns:
        t.peer_eager = True
        if not t.disconnected:
          t.peer_read()
    elif k == 'read':
      d = ds[op[1] % len(ds)]
      for t in d.conns:
        if not t.disconnected and t.outbuf:
          t.peer_read(op[2])
    elif k == 'advance':
      self.advance(op[1])
    elif k == 'stop':
      self.do_stop()
    elif k == 'flood':
      pad = 'x' * (op[2] if len(op) > 2 else 1)      # long names: messages of several 100 KB
      for i in range(op[1]):
        self.arrive('fl%d.%s' % (i, pad), (1000000.0 + i, float(-i - 1)))
      self.ctx.probe('deep_backlog_flood')
    elif k == 'file':
      from . import boot
      boot.write_file(op[1], op[2], int(self.r.seconds()) + 1)
      self.ctx.fault('rules_file_rewritten' if op[2] is not None else 'rules_file_removed')
    elif k == 'rules_fault':
      if getattr(self, 'ref_rules_file', None) is not None:
        self.rules_fault_armed = op[1]
    elif k == 'stopclient':
      d = ds[op[1] % len(ds)]
      d.stop_requested = True
      try:
        self.mgr.stopClient(d.dest)
        self.ctx.probe('stop_client')
      except Exception as e:
        self.ctx.note('stopClient raised %r' % (e,))
    self.r.run_due()
    self.end_event(k)
    # the resume signal is synchronous with the send / removal that brings the last
    # queue below its watermark, so the release condition can be evaluated after
    # every event, not only at the end of the run
    self.check_backpressure()
    st = self.w.state
    self.ctx.log.add('state', st.metricReceiversPaused, st.cacheTooFull,
                     tuple(self.dests[x].factory.queueSize for x in self.order), len(self.fake.queue))

  def advance(self, dt):
    """Run timers one callback at a time so that every callback is its own event."""
    target = self.r.seconds() + dt
    r = self.r
    n = 0
    while True:
      self.timeouts_probe()
      r.run_due()
      nd = r.next_due()
      if nd is None or nd > target:
        break
      r.clock.sleep_until(nd)
      n += 1
      if n > 5000:
        self.ctx.note('advance: timer storm')
        break
      self.end_event('timer')
      self.begin_event()
    r.clock.sleep_until(target)
    r.run_due()
    # close the event the last callbacks ran in, so that the caller's next
    # begin_event() cannot discard what happened in it
    self.end_event('timer')
    self.begin_event()

  def timeouts_probe(self):
    pass

  def arrive(self, metric, dp):
    self.ctx.probe('arrival')
    if self.route_checks:
      from .props import routeprops
      routeprops.check_key(self, metric)
    self.w.events.metricReceived(metric, dp)

  def chunk(self, ri, dps):
    """Several lines in one chunk over a receiver connection (the rest of an
    in-flight chunk is processed even if the first line pauses the receivers)."""
    if not self.receivers:
      self.open_receiver()
    c = self.receivers[ri % len(self.receivers)]
    data = ''.join('%s %r %r\n' % (m, dp[1], dp[0]) for m, dp in dps).encode('utf-8')
    if c['t'].disconnected:
      return
    if c['t'].reading and not c['pending']:
      self.r.deliver(c['t'], data)
    else:
      c['pending'].append(data)
      self.ctx.probe('arrival_held_by_pause')

  def open_receiver(self):
    P = self.w.protocols
    f = P.CarbonReceiverFactory()
    f.protocol = P.MetricLineReceiver
    n = len(self.receivers)
    t = self.r.accept(f, peer=('10.1.0.%d' % (n + 1), 40000 + n), label='rcv%d' % n)
    self.receivers.append({'t': t, 'pending': []})
    if not t.reading:
      self.ctx.probe('receiver_connected_while_paused')

  def flush_receivers(self):
    for c in self.receivers:
      while c['pending'] and c['t'].reading and not c['t'].disconnected:
        self.r.deliver(c['t'], c['pending'].pop(0))

  def do_stop(self):
    if self.stopping:
      return
    self.stopping = True
    self.ctx.probe('stop')
    # an orderly stop is reactor.stop(): 'before shutdown' stops the whole service tree
    # (client manager, instrumentation, ...); the reactor goes on running until the
    # Deferreds those services returned have fired, then crashes and disconnects
    try:
      self.r.stop()
    except Exception as e:
      self.ctx.note('reactor.stop raised %r' % (e,))

  # ------------------------------------------------------------------ end of run
  def heal(self):
    """Faults stop: every destination accepts connections and reads eagerly."""
    self.begin_event()
    # ... and keeps its connections: the downstream idle timeout is switched off (an idle
    # relay would otherwise be disconnected and reconnect for ever, with nothing to judge)
    self.dn_idle = None
    for d in self.dests.values():
      for proto in d.peer_proto.values():
        try:
          proto.setTimeout(None)
        except Exception:
          pass
    for d in self.dests.values():
      d.stalled = False
      for t in d.conns:
        t.peer_eager = True
        if not t.disconnected:
          t.peer_read()
    self.end_event('heal')
    lim = 0
    cap = 400 + 2 * sum(len(d.factory.queue) for d in self.dests.values())
    while lim < cap:
      lim += 1
      self.begin_event()
      dead = set(self.order[i % len(self.order)] for i in self.plan.get('dead', []))
      for c in list(self.r.pending_connects):
        owner = [d.dest for d in self.dests.values() if d.factory is c.factory]
        if owner and owner[0] in dead:
          self.ctx.fault('destination_stays_down')
          c.refuse()
        else:
          c.succeed()
      self.flush_receivers()
      self.r.run_due()
      self.end_event('heal')
      nd = self.r.next_due()
      busy = any(d.factory.queue for d in self.dests.values()
                 if d.dest not in dead and (self.router.hasDestination(d.dest)
                                            or d.factory.connectedProtocol)) or \
          any(c for c in self.r.pending_connects
              if not any(d.factory is c.factory and d.dest in dead for d in self.dests.values()))
      if not busy and not self.fake.queue:
        # let reload timers etc. run a little, then stop
        self.advance(1.0)
        if not any(d.factory.queue for d in self.dests.values() if d.dest not in dead):
          break
      if nd is None:
        break
      self.advance(max(0.0, min(nd - self.r.seconds(), 10.0)) + 1e-9)

  def check_liveness(self):
    if self.stopping:
      return
    # the hold-back buffer (datapoints that had no usable destination when they arrived)
    # is handed back to the router whenever a destination joins: nothing routable stays in it
    stranded = []
    for (m, dp) in list(self.fake.queue):
      try:
        if list(self.router.getDestinations(m)):
          stranded.append((m, dp))
      except Exception:
        pass
    if stranded:
      self.ctx.violation('C07', 'held-back-datapoints-stranded', 'liveness',
                         '%d datapoints held back while no destination was usable are still in the '
                         'hold-back buffer %.0f virtual seconds after the faults stopped although the '
                         'router has destinations for them again (%d configured): %r' % (
                           len(stranded), self.r.seconds() - self.heal_t,
                           self.router.countDestinations(), stranded[:4]))
    dead = set(self.order[i % len(self.order)] for i in self.plan.get('dead', []))
    for d in self.dests.values():
      if d.dest in dead:
        continue        # the liveness clause presupposes that the destination accepts connections
      f = d.factory
      normal = [a for a in d.accepted if not a[3]]
      # datapoints accepted before the faults stopped (the daemon's own statistics keep
      # arriving afterwards when instrumentation is on)
      late = [a for a in normal[d.unwritten_start:] if a[0] <= self.aid_at_heal]
      if late:
        connected = bool(f.connectedProtocol)
        if not f.started and not connected:
          continue
        self.ctx.violation('C07', 'not-delivered-after-heal', 'liveness',
                           '%s: %d datapoints accepted before the faults stopped are still unwritten '
                           '(%d queued) %.0f virtual seconds later; connected=%r' % (
                             d.dest, len(late), len(f.queue),
                             self.r.seconds() - self.heal_t, connected))

  def check_backpressure(self):
    st = self.w.state
    if not self.settings.USE_FLOW_CONTROL or self.stopping:
      return
    low = self.low_wm
    if self.router.countDestinations() == 0:
      self.ctx.probe('no_usable_destination_at_end')
      return
    if any(d.factory.queueSize >= low for d in self.dests.values()):
      return
    if self.fake.queue:
      return
    paused = [i for i, c in enumerate(self.receivers) if not c['t'].disconnected and not c['t'].reading]
    if st.metricReceiversPaused or paused:
      self.ctx.violation('C09', 'stuck-paused-relay', 'quiescence',
                         'quiescent with every send queue below the low watermark %r (sizes %r), %d '
                         'destinations configured, but metricReceiversPaused=%r cacheTooFull=%r paused '
                         'receiver connections=%r' % (
                           low, [d.factory.queueSize for d in self.dests.values()],
                           self.router.countDestinations(), st.metricReceiversPaused, st.cacheTooFull, paused))

  def check_sent_counter(self):
    if self.settings.CARBON_METRIC_INTERVAL:
      # the counters are reset at every instrumentation tick: what was reported at the
      # ticks plus what is pending must equal the discards that were counted one by one
      stats = self.w.instrumentation.stats
      for name, n in self.drops_seen.items():
        total = self.reported.get(name, 0) + stats.get(name, 0)
        if total != n:
          self.ctx.violation('C07', 'drop-count-lost', 'fullQueueDrops',
                             '%s: %d discards were counted as they happened; reported over the '
                             'instrumentation ticks %r plus pending %r' % (
                               name, n, self.reported.get(name, 0), stats.get(name, 0)))
      return
    stats = self.w.instrumentation.stats
    for d in self.dests.values():
      proto_sent = 'destinations.%s.sent' % d.factory.destinationName
      n = stats.get(proto_sent, 0)
      if n != len(d.written):
        self.ctx.violation('C07', 'sent-counter', 'sent',
                           '%s: sent counter %d, datapoints written %d' % (d.dest, n, len(d.written)))

  def run(self):
    plan = self.plan
    self.install()
    for _ in range(plan.get('nrecv', 1)):
      self.open_receiver()
    if self.route_checks:
      self.check_routing('boot', None)
    for op in plan['ops']:
      self.do_op(op)
      self.flush_receivers()
      if self.w.state.metricReceiversPaused:
        self.ctx.probe('relay_paused')
    if not self.stopping:
      self.heal_t = self.r.seconds()
      self.aid_at_heal = self.aid
      self.heal()
      self.check_liveness()
      self.check_backpressure()
    else:
      self.advance(5.0)
    self.begin_event()
    self.end_event('final')
    if self.route_checks:
      self.sweep_routing()
    self.check_downstream()
    self.check_sent_counter()
    if self.paused_seen:
      self.ctx.probe('paused_at_some_point')
      st = self.w.state
      self.ctx.note('end: paused=%r tooFull=%r queues=%r fake=%d dests=%d' % (
        st.metricReceiversPaused, st.cacheTooFull,
        [(d.factory.queueSize, d.factory.queueFull.called) for d in self.dests.values()],
        len(self.fake.queue), self.router.countDestinations()))
    self.finish_cb('done', {'sim_seconds': self.r.seconds() - 1000000.0})
