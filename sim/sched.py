"""ThreadSim: deterministic execution of several real threads, one at a time.

Simulated threads are real `threading.Thread`s passing a baton: exactly one
holds it, the others are parked on private Events.  Pre-emption points are
`line` trace events in a configured set of files, SimLock acquire/release,
SimTime.sleep and thread exit.  The virtual clock lives here: it only moves
when every thread is parked in a sleep (discrete-event time).
The process main thread is simulated thread 'R' (the reactor thread).
"""
import sys
import threading


class SimAbort(BaseException):
  """Raised inside simulated threads to unwind them (never caught by carbon's
  `except Exception`)."""


class _T(object):
  __slots__ = ('name', 'ev', 'alive', 'block', 'wake', 'thread', 'blocked_on', 'timed')

  def __init__(self, name):
    self.name = name
    self.ev = threading.Event()
    self.alive = True
    self.block = None
    self.wake = None
    self.thread = None
    self.blocked_on = None
    self.timed = False


class Sched(object):
  STEP_CAP = 400000

  def __init__(self, ctx, t0=1000000.0):
    self.ctx = ctx
    self.now = t0
    self.th = {'R': _T('R')}
    self.cur = 'R'
    self.fids = {}            # filename -> short id
    self.finish = None        # callable(reason) set by the world: ends the run
    self.steps = 0
    self.sleep_hook = None    # callable(thread, d) -> d'
    self.on_switch = None
    self.thread_errors = []
    self.p_lock = None        # pre-emption probability at lock release
    self.file_p = {}          # file-id -> pre-emption probability override
    self.hot = {}             # (file-id, line) -> pre-emption probability override
    self.stall = None         # seconds a thread may be descheduled for right after taking a lock
    self.p_unlocked = {}      # file-id -> probability at lines run while holding no SimLock
    self.locks = []           # SimLocks created through the threading shim
    self.opcode_fids = set()  # file-ids traced at bytecode granularity
    self.p_opcode = None
    self.tsteps = {}          # thread -> line steps executed
    self.trigger = None       # (thread, its step count, thread to hand the baton to)
    self.trigger_fired = False

  # ---- configuration -------------------------------------------------------
  def trace_file(self, path, fid):
    self.fids[path] = fid

  def heat(self, pattern, p):
    """Raise the pre-emption probability on every traced source line matching a
    regular expression (schedule bias towards a window of interest)."""
    import re
    rx = re.compile(pattern)
    for path, fid in self.fids.items():
      try:
        with open(path, encoding='utf-8') as f:
          for i, line in enumerate(f):
            if rx.search(line):
              self.hot[(fid, i + 1)] = p
      except IOError:
        pass

  def start(self):
    if self.fids:
      sys.settrace(self._gtrace)

  def stop_tracing(self):
    sys.settrace(None)

  def spawn(self, name, fn):
    t = _T(name)
    self.th[name] = t

    def body():
      t.ev.wait()
      t.ev.clear()
      if self.fids:
        sys.settrace(self._gtrace)
      try:
        fn()
      except SimAbort:
        pass
      except BaseException as e:   # what twisted's threadpool would log
        import traceback
        self.thread_errors.append((name, repr(e), traceback.format_exc()))
        self.ctx.log.add('thread-exc', name, type(e).__name__)
      finally:
        sys.settrace(None)
        t.alive = False
        self.ctx.log.add('thread-exit', name)
        self._reschedule(name)

    t.thread = threading.Thread(target=body, name=name, daemon=True)
    t.thread.start()
    return t

  # ---- tracing ---------------------------------------------------------------
  def _gtrace(self, frame, event, arg):
    fid = self.fids.get(frame.f_code.co_filename)
    if fid is not None:
      if fid in self.opcode_fids:
        frame.f_trace_opcodes = True     # pre-emption between bytecodes, not only lines
      return self._ltrace
    return None

  def _ltrace(self, frame, event, arg):
    if event == 'opcode':
      # sub-line pre-emption point (e.g. between the read and the write of `x -= n`)
      self.steps += 1
      if self.steps > self.STEP_CAP:
        self.finish('stepcap')
      fid = self.fids[frame.f_code.co_filename]
      lid = frame.f_lineno * 1000 + (frame.f_lasti % 1000)
      if self.ctx.ch.preempt(self.cur, fid + 'o', lid, self.p_opcode):
        self._preempt(fid + 'o', lid)
      return self._ltrace
    if event == 'line':
      self.steps += 1
      if self.steps > self.STEP_CAP:
        self.finish('stepcap')
      me = self.cur
      n = self.tsteps.get(me, 0) + 1
      self.tsteps[me] = n
      trg = self.trigger
      if trg is not None and trg[0] == me and n >= trg[1]:
        # crash-point enumeration: hand the baton to the waiting thread exactly here
        self.trigger = None
        self.trigger_fired = True
        self.ctx.log.add('trigger', me, frame.f_lineno)
        tgt = self.th.get(trg[2])
        if tgt is not None and tgt.alive and tgt.wake is None:
          tgt.block = None
          tgt.blocked_on = None
          self._handoff(me, trg[2])
      fid = self.fids[frame.f_code.co_filename]
      p = self.hot.get((fid, frame.f_lineno)) if self.hot else None
      if p is None:
        p = self.file_p.get(fid)
      if self.p_unlocked and fid in self.p_unlocked:
        # race-directed bias: shared-state code running outside every lock is where a
        # check-then-act window can be; the other thread then runs on undisturbed
        for l in self.locks:
          if l.owner == me:
            break
        else:
          p = self.p_unlocked[fid]
      if self.ctx.ch.preempt(self.cur, fid, frame.f_lineno, p):
        self._preempt(fid, frame.f_lineno)
    return self._ltrace

  def yield_point(self, fid, line, p=None):
    """Explicit pre-emption point (lock release etc.)."""
    if len(self.th) < 2:
      return
    if self.ctx.ch.preempt(self.cur, fid, line, p):
      self._preempt(fid, line)

  def _preempt(self, fid, line):
    me = self.cur
    others = [n for n in self._runnable() if n != me]
    if not others:
      self.ctx.ch.forget_preempt(me, fid, line)
      return
    nxt = others[self.ctx.ch.pick('sched', len(others))]
    self.ctx.log.add('sw', me, fid, line, nxt)
    if self.on_switch:
      self.on_switch(me, fid, line, nxt)
    self._handoff(me, nxt)

  # ---- scheduling core ---------------------------------------------------------
  def _runnable(self):
    out = []
    for n in sorted(self.th):
      t = self.th[n]
      if not t.alive:
        continue
      if t.timed:
        # waiting for a condition with a deadline (lock acquisition with a timeout)
        if t.block is not None and t.block():
          t.block = t.blocked_on = t.wake = None
          t.timed = False
        elif t.wake is None:
          t.block = t.blocked_on = None      # the deadline passed: timed out
          t.timed = False
        else:
          continue
        out.append(n)
        continue
      if t.wake is not None:
        continue
      if t.block is not None:
        if t.block():
          t.block = None
          t.blocked_on = None
        else:
          continue
      out.append(n)
    return out

  def _handoff(self, me, nxt):
    if nxt == me:
      return
    self.cur = nxt
    mt = self.th[me]
    self.th[nxt].ev.set()
    if mt.alive:
      mt.ev.wait()
      mt.ev.clear()

  def _reschedule(self, me):
    """`me` cannot (or need not) continue: pick who runs, advancing the clock
    if everybody sleeps."""
    while True:
      rn = self._runnable()
      if rn:
        break
      sl = [(t.wake, n) for n, t in self.th.items() if t.alive and t.wake is not None]
      if not sl:
        blocked = sorted((n, t.blocked_on) for n, t in self.th.items() if t.alive)
        self.ctx.log.add('deadlock', blocked)
        self.finish('deadlock:%r' % (blocked,))
        return
      w = min(sl)[0]
      if w > self.now:
        self.now = w
      for wk, n in sl:
        if wk <= self.now:
          self.th[n].wake = None
    nxt = rn[self.ctx.ch.pick('sched', len(rn))]
    self._handoff(me, nxt)

  # ---- blocking primitives used by the seams -----------------------------------
  def sleep(self, d):
    me = self.cur
    if self.sleep_hook:
      d = self.sleep_hook(me, d)
    self.th[me].wake = self.now + max(d, 0.0)
    self.ctx.log.add('sleep', me, round(d, 9))
    self._reschedule(me)

  def sleep_until(self, t):
    me = self.cur
    if t <= self.now and len(self.th) < 2:
      return
    self.th[me].wake = max(t, self.now)
    self._reschedule(me)

  def block_until(self, pred, what=None):
    me = self.cur
    if pred():
      return
    self.th[me].block = pred
    self.th[me].blocked_on = what
    self._reschedule(me)

  def timed_block(self, pred, deadline, what=None):
    """Block until pred() holds or the virtual clock reaches `deadline`."""
    me = self.cur
    if pred():
      return
    t = self.th[me]
    t.block, t.blocked_on, t.wake, t.timed = pred, what, max(deadline, self.now), True
    self._reschedule(me)

  def wake(self, name):
    """Cut a thread's sleep short (reactor wakeUp from callFromThread)."""
    t = self.th.get(name)
    if t is not None and t.alive and t.wake is not None and name != self.cur:
      t.wake = self.now

  def alive(self, name):
    t = self.th.get(name)
    return bool(t and t.alive)


class SimLock(object):
  """Stand-in for threading.Lock inside carbon.cache."""
  FID = 'lock'

  def __init__(self, sched, name='cache'):
    self.s = sched
    self.name = name
    self.owner = None
    self.on_acquire = None    # callable(thread, frame)
    self.on_release = None
    self.nacq = 0

  def acquire(self, blocking=True, timeout=-1):
    s = self.s
    s.yield_point(self.FID, 1)
    if self.owner is not None:
      if self.owner == s.cur:
        s.ctx.log.add('self-deadlock', s.cur)
        s.finish('self-deadlock')
      if not blocking:
        return False
      s.ctx.probe('lock_contended')
      if timeout is not None and timeout >= 0:
        s.timed_block(lambda: self.owner is None, s.now + timeout, 'lock:' + self.name)
        if self.owner is not None:
          s.ctx.probe('lock_acquire_timed_out')
          return False
      else:
        s.block_until(lambda: self.owner is None, 'lock:' + self.name)
    self.owner = s.cur
    self.nacq += 1
    if self.on_acquire:
      self.on_acquire(s.cur, sys._getframe(2))
    if s.stall and len(s.th) > 1 and s.ctx.ch.pick('stall', 6) == 5:
      # the thread is descheduled right after taking the lock (a stalled node): the
      # clock moves on while it holds it
      s.ctx.fault('thread_stalled_holding_lock')
      s.sleep(s.stall)
    return True

  def release(self):
    if self.on_release:
      self.on_release(self.s.cur, sys._getframe(2))
    self.owner = None
    self.s.yield_point(self.FID, 2, self.s.p_lock)

  def __enter__(self):
    self.acquire()
    return self

  def __exit__(self, *a):
    self.release()
    return False

  def locked(self):
    return self.owner is not None


class ThreadingShim(object):
  """Replaces the `threading` name inside carbon.cache."""

  def __init__(self, sched):
    self._s = sched
    self.locks = []

  def Lock(self):
    l = SimLock(self._s, 'L%d' % len(self.locks))
    self.locks.append(l)
    self._s.locks.append(l)
    return l

  RLock = Lock


class SimTime(object):
  """Replaces the `time` module name inside carbon modules."""

  def __init__(self, sched):
    self._s = sched

  def time(self):
    return self._s.now

  def sleep(self, d):
    if d < 0:
      raise ValueError('sleep length must be non-negative')
    self._s.sleep(d)

  def monotonic(self):
    return self._s.now

  def __getattr__(self, name):
    import time as _t
    return getattr(_t, name)
