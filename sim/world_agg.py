"""World D: the aggregation pipeline of a booted carbon-aggregator on the
virtual clock.  Arrivals and the per-series LoopingCall ticks share the clock;
ties are ordered by the run's Choices; clock stalls jump several periods.

Oracle (C08): every emission is the rule function over exactly the values of
its interval (reference lists kept by the harness from a reference matcher),
re-emission only on new data, buffer bound after every flush, release of idle
series, pass-through exactly once iff FORWARD_ALL, whole-name matching.
"""
import math

from twisted.python import log as txlog

from .props import routeprops


def ref_percentile(values, factor):
  v = sorted(values)
  rank = factor * (len(v) - 1)
  lo, hi = int(math.floor(rank)), int(math.ceil(rank))
  if lo == hi:
    return v[lo]
  return v[lo] * (hi - rank) + v[hi] * (rank - lo)


REF_METHODS = {
  'sum': lambda v: sum(v),
  'avg': lambda v: float(sum(v)) / len(v),
  'min': min, 'max': max, 'count': len,
  'p50': lambda v: ref_percentile(v, 0.50), 'p75': lambda v: ref_percentile(v, 0.75),
  'p80': lambda v: ref_percentile(v, 0.80), 'p90': lambda v: ref_percentile(v, 0.90),
  'p95': lambda v: ref_percentile(v, 0.95), 'p99': lambda v: ref_percentile(v, 0.99),
  'p999': lambda v: ref_percentile(v, 0.999),
}


def close(a, b):
  if a == b:
    return True
  try:
    return abs(a - b) <= 1e-9 * max(abs(a), abs(b), 1e-300)
  except Exception:
    return False


class AggWorld(object):
  def __init__(self, w, plan, ctx, finish):
    self.w, self.plan, self.ctx, self.finish_cb = w, plan, ctx, finish
    self.r = w.reactor
    self.settings = w.settings
    self.rules = routeprops.parse_agg_rules(w.cfg['files'].get('aggregation-rules.conf'))
    self.R = {}           # (series, interval) -> [values in arrival order]
    self.emitted_n = {}   # (series, interval) -> number of values received at last emission
    self.first_seen = {}  # (series, interval) -> index of the flush counter at first datapoint
    self.series_rule = {}  # series -> rule that configured it (first feeder)
    self.horizon_ok = {}  # (series, interval) -> still inside the retention horizon at every flush
    self.intervals_seen = {}  # series -> set of intervals ever received
    self.forwarded = []
    self.fed_now = None
    self.emissions = 0
    self.nticks = 0
    self.maxint = self.settings['MAX_AGGREGATION_INTERVALS']
    self.applying_at_feed = False

  # ---------------------------------------------------------------- set-up
  def install(self):
    w = self.w
    me = self
    from carbon.pipeline import Processor

    class Out(Processor):
      plugin_name = 'sim-agg-out'

      def process(self, metric, datapoint):
        me.forwarded.append((metric, datapoint))
        return Processor.NO_OUTPUT
    procs = w.state.pipeline_processors
    # replace the final 'relay' stage with the recorder
    procs[-1] = Out()
    w.state.pipeline_processors_generated[:] = []
    w.events.metricGenerated.addHandler(self.on_generated)
    bm = w.buffers_mod.BufferManager
    real_get = bm.get_buffer

    def get_buffer(metric_path):
      if me.fed_now is not None:
        me.fed_now.append(metric_path)
      return real_get(metric_path)
    bm.get_buffer = get_buffer
    MB = w.buffers_mod.MetricBuffer
    real_compute = MB.compute_value

    def compute_value(buf):
      me.before_tick(buf)
      real_compute(buf)
      me.after_tick(buf)
    MB.compute_value = compute_value
    txlog.addObserver(self.log_observer)
    self.errors = []
    # rule-file reloads: a reload legitimately clears every buffer (values not yet
    # emitted are dropped); from then on the new rules decide everything
    # The reference follows the documented schedule on its own timer (the file is
    # re-read every 10 s when it was modified) and applies a pending reload at the first
    # input or emission strictly after that instant -- by then the daemon's reload, due at
    # the same instant, has run as well.
    import os
    self.rules_path = os.path.join(os.environ['GRAPHITE_ROOT'], 'conf', 'aggregation-rules.conf')
    self.rules_mtime = os.path.getmtime(self.rules_path) if os.path.exists(self.rules_path) else 0.0
    self.pending_reload = None
    self.r.callLater(10.0, self.ref_rules_tick)
    # I/O-error seam on the rules file (carbon.aggregator.rules uses the builtin open())
    import errno
    crules = w.rules_mod
    self.rules_fault_armed = None
    self.rules_fault_fired_at = None
    self.cut_at = None
    path = self.rules_path

    class FailingLines(object):
      def __init__(self, f):
        self.f, self.n = f, 0

      def __iter__(self):
        return self

      def __next__(self):
        if self.n >= 1:
          self.f.close()
          raise IOError(errno.EIO, 'Input/output error (injected)', path)
        self.n += 1
        return next(self.f)

    def sim_open(name, *a, **kw):
      f = open(name, *a, **kw)
      if name == path and me.rules_fault_armed:
        mode, me.rules_fault_armed = me.rules_fault_armed, None
        me.rules_fault_fired_at = me.r.seconds()
        me.ctx.fault('rules_file_read_error_' + mode)
        if mode == 'open':
          f.close()
          raise IOError(errno.EIO, 'Input/output error (injected)', path)
        return FailingLines(f)
      return f
    crules.open = sim_open
    # the rules' name cache reads a monotonic clock that may move on between a membership
    # test and the read that follows it (decided by the run's choices)
    timer = getattr(w, 'ttl_timer', None)
    if timer is not None and (self.settings.CACHE_METRIC_NAMES_TTL or 0) > 0:
      import sys
      self.ttl_skew = 0.0
      self.ttl_prev_test = False
      jump = float(self.settings.CACHE_METRIC_NAMES_TTL) + 0.5

      def ttl_time():
        f, is_test = sys._getframe(1), False
        for _ in range(3):
          if f is None:
            break
          if f.f_code.co_name == '__contains__':
            is_test = True
            break
          f = f.f_back
        after_test, me.ttl_prev_test = me.ttl_prev_test, is_test
        if after_test and not is_test and me.ctx.ch.pick('ttlclock', 2) == 1:
          me.ttl_skew += jump
          me.ctx.fault('name_cache_clock_moves_between_reads')
        return me.r.seconds() + me.ttl_skew
      timer.fn = ttl_time

  def ref_rules_tick(self):
    import os
    if os.path.exists(self.rules_path):
      m = os.path.getmtime(self.rules_path)
      if m > self.rules_mtime:
        self.rules_mtime = m
        if self.rules_fault_armed or self.rules_fault_fired_at == self.r.seconds():
          # this re-read fails: rules and buffers stay as they are.  What a daemon does at
          # its next attempt (10 s on) is its own business -- the run is judged up to then
          self.cut_at = self.r.seconds() + 10.0 - 1e-3
          self.ctx.probe('reload_failed_rules_and_buffers_must_stay')
        else:
          with open(self.rules_path, encoding='utf-8') as f:
            self.pending_reload = (self.r.seconds(), f.read())
    self.r.callLater(10.0, self.ref_rules_tick)

  def check_at_cut(self):
    """After a failed re-read nothing may have been discarded: every value received and not
    yet emitted is still buffered."""
    bm = self.w.buffers_mod.BufferManager
    for (series, interval), vals in sorted(self.R.items()):
      n = self.emitted_n.get((series, interval), 0)
      if n == len(vals):
        continue
      buf = bm.buffers.get(series)
      ib = buf.interval_buffers.get(interval) if buf is not None else None
      held = list(ib.values) if ib is not None else None
      want = vals[n:]
      if held is None or held[-len(want):] != want:
        self.ctx.violation('C08', 'buffered-values-discarded-by-failed-reload', 'rules',
                           '%r interval %r: values %r were received and not yet emitted when a re-read '
                           'of the rules file failed; the buffer now holds %r' % (
                             series, interval, want[:8], held))

  def apply_pending_reload(self):
    if self.pending_reload is not None and self.r.seconds() > self.pending_reload[0] - 1e-9:
      t, text = self.pending_reload
      if self.r.seconds() > t or self.applying_at_feed:
        self.pending_reload = None
        self.reference_reload(text)

  def reference_reload(self, text):
    self.rules = routeprops.parse_agg_rules(text)
    self.R.clear()
    self.emitted_n.clear()
    self.series_rule.clear()
    self.horizon_ok.clear()
    self.intervals_seen.clear()
    self.ctx.probe('rules_reloaded')
    self.ctx.log.add('rules-reload', len(self.rules))

  def log_observer(self, event):
    if event.get('isError'):
      f = event.get('failure')
      self.errors.append(f.type.__name__ if f is not None else str(event.get('message'))[:80])

  # ---------------------------------------------------------------- ticks
  def before_tick(self, buf):
    self.nticks += 1
    now = int(self.r.seconds())
    freq = buf.aggregation_frequency
    current = now - (now % freq)
    series = buf.metric_path
    # retention-horizon bookkeeping (sound definition, see DESIGN.md C08): an interval
    # stays "inside" only while its start lies in [current - MAX*freq, current] at every
    # flush since its first datapoint and at most MAX+1 newer intervals were ever received
    for (s, interval), ok in list(self.horizon_ok.items()):
      if s != series or not ok:
        continue
      newer = len([i for i in self.intervals_seen.get(series, ()) if i > interval])
      if not (current - self.maxint * freq <= interval <= current) or newer > self.maxint + 1:
        self.horizon_ok[(s, interval)] = False
    self.tick_series = series
    self.tick_current = current

  def after_tick(self, buf):
    n = len(buf.interval_buffers)
    if n > self.maxint + 2:
      self.ctx.violation('C08', 'too-many-interval-buffers', 'compute_value',
                         'series %r holds %d interval buffers after a flush; MAX_AGGREGATION_INTERVALS '
                         '+ 2 = %d' % (buf.metric_path, n, self.maxint + 2))
    self.ctx.sigs.add('nbuf:%d' % n)
    # a flush emits every interval that received data since its last emission
    series = buf.metric_path
    for (s, interval), vals in self.R.items():
      if s == series and self.emitted_n.get((s, interval), 0) != len(vals):
        self.ctx.violation('C08', 'values-never-emitted', 'compute_value',
                           '%r interval %r: %d values received, only %d covered by an emission after '
                           'the flush that followed them (values %r)' % (
                             s, interval, len(vals), self.emitted_n.get((s, interval), 0), vals[:8]))
    self.tick_series = None

  def on_generated(self, metric, datapoint):
    self.applying_at_feed = False
    self.apply_pending_reload()
    self.emissions += 1
    interval, v = datapoint
    rule = self.series_rule.get(metric)
    self.ctx.log.add('emit', metric, interval, repr(v))
    if rule is None:
      self.ctx.violation('C08', 'emission-for-unknown-series', 'metricGenerated',
                         'aggregate %r emitted but no input was ever matched to it' % (metric,))
      return
    freq = rule['freq']
    if interval % freq != 0:
      self.ctx.violation('C08', 'interval-not-aligned', 'metricGenerated',
                         '%r emitted for interval %r, rule frequency %d' % (metric, interval, freq))
    key = (metric, interval)
    R = self.R.get(key, [])
    nprev = self.emitted_n.get(key, 0)
    if not R:
      self.ctx.violation('C08', 'emission-without-data', 'metricGenerated',
                         '%r emitted %r for interval %r for which nothing was received' % (metric, v, interval))
      return
    if len(R) == nprev:
      self.ctx.violation('C08', 're-emitted-without-new-data', 'metricGenerated',
                         '%r interval %r emitted again (%r) although no value arrived since its last '
                         'emission' % (metric, interval, v))
    f = REF_METHODS[rule['method']]
    inside = self.horizon_ok.get(key, False)
    ks = [0] if inside else range(0, nprev + 1)
    ok = False
    for k in ks:
      part = R[k:]
      if not part:
        continue
      if close(f(part), v):
        ok = True
        if k:
          self.ctx.probe('emission_after_buffer_expiry')
        break
    if not ok:
      clause = 'wrong-aggregate-inside-horizon' if inside else 'wrong-aggregate'
      self.ctx.violation('C08', clause, rule['method'],
                         '%r interval %r emitted %r; values received in order: %r (of which %d before the '
                         'previous emission); %s(all) = %r' % (metric, interval, v, R[:12], nprev,
                                                               rule['method'], f(R)))
    self.emitted_n[key] = len(R)
    if nprev:
      self.ctx.probe('re_emission_with_new_data')

  # ---------------------------------------------------------------- inputs
  def feed(self, name, ts, value):
    self.applying_at_feed = True      # inputs arrive between advances: the daemon's timers
    self.apply_pending_reload()       # due at this instant have all run
    self.fed_now = []
    nfwd = len(self.forwarded)
    self.ctx.log.add('in', name, ts, value)
    self.w.events.metricReceived(name, (ts, value))
    fed = self.fed_now
    self.fed_now = None
    expect = []
    for rule in self.rules:
      a = routeprops.ref_agg_match(rule, name)
      if a is not None:
        expect.append((a, rule))
    if sorted(set(fed)) != sorted(set(a for a, _ in expect)):
      self.ctx.violation('C08', 'rule-matching-differs', 'rules',
                         'input %r fed aggregates %r; the documented pattern language gives %r'
                         % (name, sorted(set(fed)), sorted(set(a for a, _ in expect))))
    seen = set()
    now = int(self.r.seconds())
    for a, rule in expect:
      if a in seen:
        continue
      seen.add(a)
      cfgrule = self.series_rule.setdefault(a, rule)
      freq = cfgrule['freq']
      interval = ts - (ts % freq)
      key = (a, interval)
      if key not in self.R:
        current = now - (now % freq)
        self.horizon_ok[key] = (current - self.maxint * freq <= interval <= current)
        if interval < current - self.maxint * freq:
          self.ctx.probe('very_old_datapoint')
        elif interval < current:
          self.ctx.probe('late_datapoint')
        elif interval > current:
          self.ctx.probe('future_datapoint')
      self.R.setdefault(key, []).append(value)
      self.intervals_seen.setdefault(a, set()).add(interval)
      # a newer interval may push older ones over the MAX+2 bound
      for (s, i2), ok in list(self.horizon_ok.items()):
        if s == a and ok and i2 < interval:
          if len([x for x in self.intervals_seen[a] if x > i2]) > self.maxint + 1:
            self.horizon_ok[(s, i2)] = False
    # pass-through
    own = set(a for a, _ in expect)
    new = self.forwarded[nfwd:]
    want = [(name, (ts, value))] if (self.settings.FORWARD_ALL and name not in own) else []
    if new != want:
      self.ctx.violation('C08', 'pass-through', 'FORWARD_ALL=%s' % self.settings.FORWARD_ALL,
                         'input (%r, %r) forwarded as %r, expected %r (its aggregates: %r)'
                         % (name, (ts, value), new, want, sorted(own)))
    if name in own:
      self.ctx.probe('input_named_like_its_aggregate')

  # ---------------------------------------------------------------- main
  def run(self):
    plan, ctx, r = self.plan, self.ctx, self.r
    self.install()
    for op in plan['ops']:
      if op[0] == 'dp':
        ts = r.seconds() + op[2]
        if op[3] == 'int':
          ts = float(int(ts))
        self.feed(op[1], ts, op[4])
      elif op[0] == 'advance':
        # in slices ending at the 10 s reload instants, so that a failed re-read (which ends
        # the judged period 10 s later) is noticed before the clock runs past that end
        t_end = r.seconds() + op[1]
        while True:
          if self.cut_at is not None:
            t_end = min(t_end, self.cut_at)
          now = r.seconds()
          if now >= t_end - 1e-9:
            r.advance(0.0)
            break
          nxt = (int((now - 1000000.0) / 10.0 + 1e-9) + 1) * 10.0 + 1000000.0
          r.advance(min(t_end, nxt) - now)
        if op[1] > 100:
          ctx.fault('clock_stall')
      elif op[0] == 'rules_fault':
        self.rules_fault_armed = op[1]
      elif op[0] == 'file':
        from . import boot
        boot.write_file(op[1], op[2], int(r.seconds()) + 1)
        ctx.fault('rules_file_rewritten')
      if self.cut_at is not None and r.seconds() >= self.cut_at - 1e-9:
        break
    if self.cut_at is not None:
      self.check_at_cut()
      ctx.probe('emissions', self.emissions)
      self.finish_cb('done', {'sim_seconds': r.seconds() - 1000000.0, 'emissions': self.emissions})
      return
    # quiescence: no input for (MAX+2)*freq + one tick -> everything released
    maxfreq = max([ru['freq'] for ru in self.rules] + [60])
    r.advance((self.maxint + 3) * maxfreq + maxfreq + 1)
    bm = self.w.buffers_mod.BufferManager
    if len(bm):
      ctx.violation('C08', 'idle-series-not-released', 'BufferManager',
                    '%d series still allocated after %d idle seconds: %r' % (
                      len(bm), (self.maxint + 3) * maxfreq + maxfreq + 1, sorted(bm.buffers)[:5]))
    timers = [c for c in r.getDelayedCalls() if 'compute_value' in repr(getattr(c, 'func', ''))]
    left = []
    for c in r.getDelayedCalls():
      f = getattr(c, 'func', None)
      lc = getattr(f, '__self__', None)
      tgt = getattr(lc, 'f', None)
      if tgt is not None and getattr(tgt, '__name__', '') == 'compute_value':
        left.append(tgt)
    if left:
      ctx.violation('C08', 'flush-timer-leaked', 'LoopingCall',
                    '%d flush timers still scheduled after every series was released' % len(left))
    if self.errors:
      ctx.note('logged errors: %r' % self.errors[:3])
    ctx.probe('emissions', self.emissions)
    self.finish_cb('done', {'sim_seconds': r.seconds() - 1000000.0, 'emissions': self.emissions})
