"""World B: the full carbon-cache daemon with reactor thread R and writer thread W.

R (the process main thread) executes the plan's operations through the real
listener protocols -> pipeline -> MetricCache.store path and runs the reactor's
timers; W runs either the real carbon.writer.writeForever (from
reactor.callInThread) or a bare drain_metric() loop.  The scheduler decides at
every source line of cache.py / writer.py / events.py / util.py / protocols.py
which thread advances.

Oracles (one run evaluates all; each check reports only its own property):
  C02 refinement against RefCache, stepped in lock-acquisition order
  C10 bound at every lock release / switch, refusal signalling
  C17 strategy clauses
  C03 writer accounting over the recorded history, C19 create arguments
  C04 orderly stop, C09 back-pressure release at quiescence, C20 rate windows
"""
import os
import pickle
import struct

from twisted.python import log as txlog
from twisted.internet import error

from .refmodels import RefCache, ref_parse_retention

STRATEGIES = ['sorted', 'timesorted', 'max', 'bucketmax', 'naive', 'random']
PASS_STRATEGIES = ('sorted', 'timesorted', 'naive')


class Op(object):
  __slots__ = ('kind', 'm', 'ts', 'v', 'stage', 'locked', 'expect', 'choose', 'result', 'step0',
               'popped', 'parent')

  def __init__(self, kind, m=None, ts=None, v=None):
    self.kind, self.m, self.ts, self.v = kind, m, ts, v
    self.stage = 0
    self.locked = False
    self.expect = None
    self.choose = None
    self.result = None
    self.step0 = None
    self.popped = None
    self.parent = None


class CacheWorld(object):

  def __init__(self, w, plan, ctx, finish):
    self.w, self.plan, self.ctx = w, plan, ctx
    self.finish_cb = finish
    self.s = w.sched
    self.r = w.reactor
    self.settings = w.settings
    self.cache = w.cache_mod.MetricCache()
    self.strategy = self.settings.CACHE_WRITE_STRATEGY
    # limits as the documentation states them (MAX_CACHE_SIZE, 105% of it under flow
    # control, resume below 95%), not read back from the code under test
    cs = w.cfg['settings']
    mx = cs.get('MAX_CACHE_SIZE', float('inf'))
    self.hard_max = mx * 1.05 if cs.get('USE_FLOW_CONTROL', True) else mx
    self.low_wm = mx * 0.95
    self.model = RefCache(self.hard_max)
    self.curop = {}            # thread -> Op
    self.conns = []
    self.stop_step = None
    self.stopping = False
    self.nstore_calls = 0
    self.window_left = None      # operations left inside an open shutdown window
    self.window_d = None
    self.stop_window_done = False
    self.last_store = {}       # (m, ts) -> model step of last accepted store
    self.pass_remaining = set()
    self.pass_active = False
    self.drain_log = []        # W-side history for C03: ('drain', m, dps, stats) / db recs
    self.whist = []
    self.errors_logged = 0
    self.store_raised = 0
    self.schema_versions = []  # (vtime_loaded, text) storage-schemas versions in force
    self.agg_versions = []
    self.wmode = plan.get('wmode', 'writer')
    self.query_conn = None
    self.ndrains = 0
    self.final_phase = False
    self.db_seq = {}
    self.lag_changed = False
    self.overflow_signals = 0
    self.handed = {}
    self.accepted_from_receivers = {}

  # ------------------------------------------------------------------ set-up
  def install(self):
    w, s, ctx = self.w, self.s, self.ctx
    cm = w.cache_mod
    for mod, fid in ((cm, 'c'), (w.events, 'e'), (w.util, 'u'), (w.protocols, 'p')):
      s.trace_file(mod.__file__, fid)
    if getattr(w, 'writer_mod', None) is not None:
      s.trace_file(w.writer_mod.__file__, 'w')
    if self.settings.CARBON_METRIC_INTERVAL:
      # the reporting tick (reactor thread) shares the counters with the writer thread
      s.trace_file(w.instrumentation.__file__, 'i')
      # its functions are two or three lines long and only matter when the other thread is
      # runnable at that very moment (a pre-emption with nobody else runnable is void)
    s.finish = self.finish
    s.p_lock = self.plan.get('p_lock')
    s.file_p = dict(self.plan.get('file_p') or {})
    if self.settings.CARBON_METRIC_INTERVAL and not self.plan.get('pct_points'):
      s.file_p.setdefault('i', 0.4)
    s.p_unlocked = dict(self.plan.get('p_unlocked') or {})
    s.stall = self.plan.get('stall')
    self.r.shutdown_gaps = bool(self.plan.get('shutdown_gaps'))
    for pat, pp in (self.plan.get('hot') or []):
      s.heat(pat, pp)
    if self.plan.get('opcode'):
      s.opcode_fids = set(['c'])            # carbon/cache.py at bytecode granularity
      s.p_opcode = self.plan.get('p_opcode', 0.02)
      self.ctx.probe('opcode_level_run')
    lock = self.cache.lock
    lock.on_acquire = self.on_acquire
    lock.on_release = self.on_release
    s.on_switch = self.on_switch
    cache = self.cache
    cls = type(cache)
    real_store, real_pop, real_drain = cls.store, cls.pop, cls.drain_metric
    me = self

    def store(metric, datapoint):
      return me.wrap_store(real_store, metric, datapoint)

    def pop(metric):
      return me.wrap_pop(real_pop, metric)

    def drain_metric():
      return me.wrap_drain(real_drain)

    cache.store, cache.pop, cache.drain_metric = store, pop, drain_metric
    db = w.db
    db.ctx, db.clock = ctx, s
    db.sleeper = s.sleep
    db.fault_plan = {int(k): tuple(v) for k, v in self.plan.get('db_faults', {}).items()}
    db.on_call = self.on_db_call
    txlog.addObserver(self.log_observer)
    # what the daemon *reports* (self-metrics recorded at every CARBON_METRIC_INTERVAL tick)
    self.reported = {}
    inst = w.instrumentation
    real_record = inst.cache_record

    def cache_record(metric, value):
      me.reported[metric] = me.reported.get(metric, 0) + (value if isinstance(value, (int, float)) else 0)
      n0 = me.nstore_calls
      r = real_record(metric, value)
      if me.nstore_calls == n0 and not me.settings.RELAY_CACHE_METRICS:
        # the daemon's own datapoints enter the cache like any other: stored, or refused
        # with the overflow signal -- never dropped on the quiet
        me.ctx.violation('C10', 'self-metric-dropped-without-signal', 'cache_record',
                         'the instrumentation tick recorded %r = %r but never offered it to the cache '
                         '(cache holds %d datapoints, hard limit %r): a refusal nobody is told about'
                         % (metric, value, me.model.size, me.hard_max))
      return r
    inst.cache_record = cache_record
    if self.plan.get('oversleep'):
      ov = self.plan['oversleep']
      cnt = [0]

      def hook(thread, d):
        if thread != 'R' and d > 0:
          i = cnt[0]
          cnt[0] += 1
          extra = ov[i % len(ov)]
          if extra:
            ctx.fault('oversleep')
          return d + extra
        return d
      s.sleep_hook = hook
    self.r.callLater(60.0, self.ref_reload_tick)
    # marks the point from which the shutdown limits are fully in force ('before shutdown'
    # triggers, shutdownModifyUpdateSpeed among them, have all returned)
    self.limits_marker = None
    self.r.addSystemEventTrigger('during', 'shutdown', self.mark_limits_changed)
    self.r.thread_joiner = self.join_threads
    self.r.waker = lambda: s.wake('R')
    # schema versions in force at boot
    files = self.w.cfg.get('files', {})
    self.schema_versions.append((0, files.get('storage-schemas.conf',
                                              "[default]\npattern = .*\nretentions = 60:1440\n")))
    self.agg_versions.append((0, files.get('storage-aggregation.conf')))
    self.ref_schema_versions = [(0.0, self.schema_versions[0][1])]
    self.ref_agg_versions = [(0.0, self.agg_versions[0][1])]
    if getattr(w, 'writer_mod', None) is not None:
      wm = w.writer_mod
      real_rs, real_ra = wm.reloadStorageSchemas, wm.reloadAggregationSchemas
      # observe *completed* reloads (harness-side wrapper on the LoopingCall target)

      def rs():
        real_rs()
        me.note_reload('storage-schemas.conf', me.schema_versions)

      def ra():
        real_ra()
        me.note_reload('storage-aggregation.conf', me.agg_versions)
      for svc in w.root.services:
        if type(svc).__name__ == 'WriterService':
          # (observation only -- the oracle follows its own clock; a daemon that organises
          # its reload timers differently is simply not observed here)
          if hasattr(svc, 'storage_reload_task') and hasattr(svc, 'aggregation_reload_task'):
            svc.storage_reload_task.f = rs
            svc.aggregation_reload_task.f = ra

  def ref_reload_tick(self):
    """The documented behaviour: both schema files are re-read every 60 seconds.  The
    reference keeps its own clock-driven view of the file versions in force, so that a
    reload timer that has died inside the daemon is noticed."""
    for name, versions in (('storage-schemas.conf', self.ref_schema_versions),
                           ('storage-aggregation.conf', self.ref_agg_versions)):
      p = os.path.join(os.environ['GRAPHITE_ROOT'], 'conf', name)
      try:
        text = open(p, encoding='utf-8').read()
      except IOError:
        text = None
      if text is not None and not ref_parseable(text, name):
        continue
      if text is None and name == 'storage-schemas.conf':
        continue
      if text != versions[-1][1]:
        versions.append((self.s.now, text))
    if not self.stopping:
      self.r.callLater(60.0, self.ref_reload_tick)
    # marks the point from which the shutdown limits are fully in force ('before shutdown'
    # triggers, shutdownModifyUpdateSpeed among them, have all returned)
    self.limits_marker = None
    self.r.addSystemEventTrigger('during', 'shutdown', self.mark_limits_changed)

  def note_reload(self, name, versions):
    p = os.path.join(os.environ['GRAPHITE_ROOT'], 'conf', name)
    try:
      text = open(p, encoding='utf-8').read()
    except IOError:
      text = None
    self.ctx.log.add('reload', name)
    if text is not None and not ref_parseable(text, name):
      # the reference parser cannot read it either: a reload of such a file must leave
      # the previous version in force
      self.ctx.fault('unparseable_schema_file_at_reload')
      return
    versions.append((self.ctx.log.n, text))
    self.ctx.probe('schema_reload')

  def log_observer(self, event):
    if event.get('isError'):
      self.errors_logged += 1
      f = event.get('failure')
      self.ctx.log.add('log-err', f.type.__name__ if f is not None else 'err')
      self.whist.append(('logerr', self.s.cur, f.type.__name__ if f is not None else 'err'))

  # ------------------------------------------------------------ op wrappers
  def wrap_store(self, real, metric, datapoint):
    self.nstore_calls += 1
    t = self.s.cur
    ts, v = datapoint
    op = Op('store', metric, ts, v)
    prev = self.curop.get(t)
    self.curop[t] = op
    ov0 = self.w.instrumentation.stats.get('cache.overflow', 0)
    op.step0 = ov0
    try:
      return real(self.cache, metric, datapoint)
    except Exception as e:
      self.store_raised += 1
      self.ctx.violation('C17', 'store-raises', type(e).__name__,
                         'cache.store(%r, %r) raised %r under strategy %s' % (
                           metric, datapoint, e, self.strategy))
      raise
    finally:
      if not op.locked:
        self.ctx.violation('C02', 'store-without-lock', 'store',
                           'store() completed without taking the cache lock')
        self.model_store(op)
      self.curop[t] = prev

  def wrap_pop(self, real, metric):
    t = self.s.cur
    op = Op('pop', metric)
    prev = self.curop.get(t)
    if prev is not None and prev.kind == 'drain':
      op.parent = prev
    self.curop[t] = op
    try:
      res = real(self.cache, metric)
    finally:
      self.curop[t] = prev
    if not op.locked:
      self.ctx.violation('C02', 'pop-without-lock', 'pop',
                         'pop() completed without taking the cache lock')
      self.model_pop(op)
    exp = op.expect
    if exp is None:
      if res:
        self.ctx.violation('C02', 'pop-unknown-metric', 'pop',
                           'pop(%r) returned %r but the model holds no such metric' % (metric, res))
    elif list(res) != exp:
      self.ctx.violation('C02', 'drain-mismatch', 'pop',
                         'pop(%r) returned %r, model expected %r' % (metric, res, exp))
    tss = [x[0] for x in res]
    if any(b <= a for a, b in zip(tss, tss[1:])):
      self.ctx.violation('C02', 'drain-unsorted', 'pop',
                         'drained batch for %r not strictly increasing in timestamp: %r' % (metric, res))
    if prev is not None and prev.kind == 'drain':
      prev.result = (metric, exp)
      prev.popped = (metric, exp)
    return res

  def wrap_drain(self, real):
    t = self.s.cur
    op = Op('drain')
    prev = self.curop.get(t)
    self.curop[t] = op
    self.ndrains += 1
    model_nonempty_before = bool(self.model.size)
    try:
      res = real(self.cache)
    except Exception as e:
      self.ctx.violation('C17', 'drain-raises', type(e).__name__,
                         'drain_metric() raised %r under strategy %s' % (e, self.strategy))
      self.curop[t] = prev
      raise
    self.curop[t] = prev
    metric, dps = res
    self.ctx.log.add('drain', metric, tuple(dps))
    for (ts, v) in dps:
      k = (metric, ts, repr(v))
      self.handed[k] = self.handed.get(k, 0) + 1
      if self.handed[k] > self.accepted_from_receivers.get(k, 0):
        self.ctx.violation('C02', 'handed-out-twice', 'drain_metric',
                           'datapoint %r of %r was handed out by %d drains but accepted from a receiver '
                           '%d times' % ((ts, v), metric, self.handed[k],
                                         self.accepted_from_receivers.get(k, 0)))
    self.whist.append(('drain', metric, list(dps), self.stats_snapshot(), self.s.now,
                       self.stopping))
    op.result = res
    if metric is not None:
      if op.popped is None:
        if dps:
          self.ctx.violation('C02', 'drain-unknown-data', 'drain_metric',
                             'drain returned (%r, %r) but the model saw nothing leave the cache'
                             % (metric, dps))
      elif op.popped[0] != metric or list(dps) != (op.popped[1] or []):
        self.ctx.violation('C02', 'drain-mismatch', 'drain_metric',
                           'drain returned (%r, %r); model expected %r' % (metric, dps, op.popped))
        gone = [x for x in (op.popped[1] or []) if x not in list(dps)]
        if gone:
          self.ctx.violation('C03', 'taken-from-cache-but-not-handed-to-writer', 'drain_metric',
                             'datapoints %r left the cache with the batch for %r but are not in the '
                             'batch the writer received (%r): they can be neither written nor '
                             'accounted for' % (gone, op.popped[0], dps))
      tss = [x[0] for x in dps]
      if any(b <= a for a, b in zip(tss, tss[1:])):
        self.ctx.violation('C02', 'drain-unsorted', 'drain_metric',
                           'drained batch for %r not strictly increasing in timestamp: %r' % (metric, dps))
    if metric is not None and not dps:
      self.ctx.probe('empty_batch')
      others = {m: n for m, n in self.model.counts().items() if m != metric and n}
      if others:
        self.ctx.violation('C17', 'empty-batch', 'drain_metric',
                           'drain returned (%r, []) while the cache holds %r' % (metric, others))
    if metric is not None:
      self.check_choice(op, metric, dps)
    elif self.final_phase and self.model.size:
      pass  # judged by the bounded-drain clause
    return res

  # ------------------------------------------------------------ lock callbacks
  def on_acquire(self, thread, frame):
    op = self.curop.get(thread)
    self.ctx.log.add('acq', thread, op.kind if op else None, op.m if op else None)
    if op is None:
      return
    if op.kind == 'store':
      op.locked = True
      self.model_store(op)
    elif op.kind == 'pop':
      op.locked = True
      self.model_pop(op)
    elif op.kind == 'drain' and op.choose is None:
      # the choose point
      op.locked = True
      op.choose = {'counts': self.model.counts(), 'now': self.s.now,
                   'oldest': {m: min(v) for m, v in self.model.d.items() if v}}

  def model_store(self, op):
    out = self.model.store(op.m, op.ts, op.v)
    op.expect = out
    if out in ('ok', 'dup'):
      self.last_store[(op.m, op.ts)] = self.model.step
      if self.s.cur != 'W':
        k = (op.m, op.ts, repr(op.v))
        self.accepted_from_receivers[k] = self.accepted_from_receivers.get(k, 0) + 1
      else:
        self.ctx.probe('store_from_writer_thread')
    if out == 'overflow':
      self.overflow_signals += 1
      self.ctx.probe('store_refused')
    elif out == 'dup':
      self.ctx.probe('store_duplicate_ts')
    # a store landing between a drain's choose and its pop?
    for t, o in self.curop.items():
      if o is not None and o.kind == 'drain' and o.choose is not None and o.popped is None \
          and o.result is None:
        self.ctx.probe('store_between_choose_and_pop')

  def model_pop(self, op):
    op.expect = self.model.pop(op.m)
    if op.parent is not None:
      op.parent.popped = (op.m, op.expect)

  def on_release(self, thread, frame):
    op = self.curop.get(thread)
    cache = self.cache
    held = sum(len(v) for v in cache.values())
    if cache.size != held:
      self.ctx.violation('C02', 'size-drift', 'lock-release',
                         'cache.size=%r but %r datapoints held' % (cache.size, held))
    if op is None:
      self.check_bound('lock-release')     # somebody other than store/pop/drain took the lock
      return
    real = {m: dict(v) for m, v in cache.items() if v}
    if op.kind == 'drain' and op.popped is None:
      # choose and pop under one lock hold: reconcile what left the cache
      gone = [m for m in self.model.d if m not in real]
      if len(gone) == 1:
        op.popped = (gone[0], self.model.pop(gone[0]))
      elif gone:
        self.ctx.violation('C02', 'several-metrics-vanished', 'drain_metric',
                           'metrics %r left the cache under one lock hold' % (sorted(gone),))
    if op.kind in ('store', 'pop', 'drain'):
      if real != self.model.d:
        self.ctx.violation('C02', 'state-mismatch', op.kind,
                           'after %s(%r,%r,%r): cache %r, model %r' % (
                             op.kind, op.m, op.ts, op.v, real, self.model.d))
      elif cache.size != self.model.size:
        self.ctx.violation('C02', 'size-mismatch', op.kind,
                           'cache.size=%r model size=%r' % (cache.size, self.model.size))
    self.check_bound('lock-release')
    if op.kind == 'store':
      ov = self.w.instrumentation.stats.get('cache.overflow', 0) - op.step0
      if op.expect == 'overflow':
        if ov != 1:
          self.ctx.violation('C10', 'refusal-not-signalled', 'store',
                             'store(%r,%r) refused at size %r (hard max %r) but overflow '
                             'signal fired %d times' % (op.m, op.ts, cache.size, self.hard_max, ov))
        keys = set(cache.keys())
        mkeys = set(self.model.d.keys())
        if keys != mkeys:
          self.ctx.violation('C10', 'refusal-changes-metric-count', 'store',
                             'refused store(%r) left keys %r, expected %r (len(cache) %d -> %d)' % (
                               op.m, sorted(keys), sorted(mkeys), len(mkeys), len(keys)))
      else:
        if ov != 0:
          self.ctx.violation('C10', 'spurious-overflow', 'store',
                             'store(%r,%r) expected %s but overflow fired %d times' % (
                               op.m, op.ts, op.expect, ov))

  def check_bound(self, where):
    hm = self.hard_max
    size = self.cache.size
    if size > hm:
      over = size - hm
      integral = float(hm) == int(hm)
      clause = 'bound-exceeded' if (integral or over >= 1) else 'bound-exceeded-fractional-limit'
      self.ctx.violation('C10', clause, 'size',
                         'cache.size=%r exceeds hard limit %r at %s' % (size, hm, where))

  def on_switch(self, me, fid, line, nxt):
    self.ctx.sigs.add('%s%s>%s' % (fid, line, nxt))
    self.check_bound('switch')

  # ------------------------------------------------------------ strategy clauses
  def check_choice(self, op, metric, dps):
    ch = op.choose
    strat = self.strategy
    if ch is None:
      return
    counts = ch['counts']
    if strat in ('max', 'bucketmax') and counts:
      mx = max(counts.values())
      got = counts.get(metric, 0)
      if got != mx:
        self.ctx.violation('C17', 'not-maximum', strat,
                           '%s drained %r holding %d points at its choose point while the maximum '
                           'was %d (%r)' % (strat, metric, got, mx, counts))
    lag = self.lag_at_choose(ch)
    if self.lag_changed:
      return
    if strat == 'timesorted' and lag and dps:
      oldest = ch['oldest'].get(metric)
      if oldest is not None and not (ch['now'] - oldest > lag):
        self.ctx.violation('C17', 'lag-not-respected', strat,
                           'drained %r whose oldest datapoint %r is only %.3fs old (lag %r)' % (
                             metric, oldest, ch['now'] - oldest, lag))
    if strat in PASS_STRATEGIES:
      if not self.pass_remaining:
        elig = set(counts)
        if strat == 'timesorted' and lag:
          elig = set(m for m in counts if ch['now'] - ch['oldest'][m] > lag)
        self.pass_remaining = set(elig)
        self.ctx.probe('pass_begin')
      if metric not in self.pass_remaining:
        self.ctx.violation('C17', 'drained-twice-in-pass', strat,
                           '%s drained %r again before %r (present at the start of the pass) '
                           'were drained' % (strat, metric, sorted(self.pass_remaining)))
      self.pass_remaining.discard(metric)

  def lag_at_choose(self, ch):
    return self.settings.MIN_TIMESTAMP_LAG

  # ------------------------------------------------------------ backend history
  def stats_snapshot(self):
    st = self.w.instrumentation.stats
    return {k: st.get(k, 0) for k in ('committedPoints', 'errors', 'droppedCreates', 'creates')}

  def on_db_call(self, rec):
    self.whist.append(('db', rec))
    self.db_seq[rec[0]] = self.ctx.log.n

  # ------------------------------------------------------------ connections
  def connect(self, kind):
    P = {'line': self.w.protocols.MetricLineReceiver,
         'pickle': self.w.protocols.MetricPickleReceiver}[kind]
    f = self.w.protocols.CarbonReceiverFactory()
    f.protocol = P
    n = len(self.conns)
    t = self.r.accept(f, peer=('10.1.0.%d' % (n + 1), 40000 + n), label='rcv%d' % n)
    c = {'kind': kind, 't': t, 'pending': [], 'id': n}
    self.conns.append(c)
    self.ctx.log.add('connect', n, kind, t.reading)
    if not t.reading:
      self.ctx.probe('connected_while_paused')
    return c

  def live_conns(self):
    return [c for c in self.conns if not c['t'].disconnected]

  def encode(self, kind, dps):
    if kind == 'pickle':
      body = pickle.dumps([(m, (ts, v)) for m, ts, v in dps], protocol=2)
      return struct.pack('!L', len(body)) + body
    return ''.join('%s %r %r\n' % (m, v, ts) for m, ts, v in dps).encode('utf-8')

  def send(self, ci, dps):
    live = self.live_conns()
    if not live:
      live = [self.connect('line')]
    c = live[ci % len(live)]
    data = self.encode(c['kind'], dps)
    if c['t'].reading and not c['pending']:
      self.r.deliver(c['t'], data)
    else:
      c['pending'].append(data)
      self.ctx.probe('send_deferred_by_pause')

  def flush_pending(self):
    for c in self.conns:
      while c['pending'] and c['t'].reading and not c['t'].disconnected:
        self.r.deliver(c['t'], c['pending'].pop(0))

  def udp(self, dps):
    if not hasattr(self, 'udp_proto'):
      self.udp_proto = self.w.protocols.MetricDatagramReceiver()
    data = ''.join('%s %r %r\n' % (m, v, ts) for m, ts, v in dps).encode('utf-8')
    n0 = self.nstore_calls
    try:
      self.udp_proto.datagramReceived(data, ('10.2.0.1', 5000))
    except Exception:
      txlog.err()
    if self.nstore_calls - n0 != len(dps):
      # a datagram socket is never paused: each of its datapoints is offered to the cache
      # (stored, or refused with the overflow signal)
      self.ctx.violation('C10', 'datagram-dropped-before-the-cache', 'udp',
                         'a datagram with %d well-formed datapoints led to %d store() calls '
                         '(receivers paused=%r, %d datapoints held, hard limit %r)' % (
                           len(dps), self.nstore_calls - n0, self.w.state.metricReceiversPaused,
                           self.model.size, self.hard_max))

  def query(self, metric, bulk=None):
    if self.query_conn is None or self.query_conn.disconnected:
      port = [p for p in self.r.ports if getattr(p.factory, 'protocol', None) is
              self.w.protocols.CacheManagementHandler][0]
      self.query_conn = self.r.accept(port.factory, peer=('10.3.0.1', 41000), label='query')
    t = self.query_conn
    req = ({'type': 'cache-query-bulk', 'metrics': bulk} if bulk is not None
           else {'type': 'cache-query', 'metric': metric})
    body = pickle.dumps(req, protocol=2)
    s0 = self.model.step
    before = len(t.delivered)
    self.r.deliver(t, struct.pack('!L', len(body)) + body)
    s1 = self.model.step
    raw = bytes(t.delivered[before:])
    if len(raw) < 4:
      self.ctx.violation('C02', 'query-no-response', 'cache-query', 'no response to %r' % (req,))
      return
    resp = pickle.loads(raw[4:])
    if bulk is None:
      got = {metric: dict(resp.get('datapoints', []))}
    else:
      got = {m: dict(v) for m, v in resp.get('datapointsByMetric', {}).items()}
    # a drain by the other thread that holds the lock right now has taken effect in
    # the real cache at some line of its critical section but steps the model only
    # at its linearisation point: its metric may already read as absent
    inflight = any(o is not None and o.kind in ('drain', 'pop') and t2 != self.s.cur and
                   self.cache.lock.owner == t2 for t2, o in self.curop.items())
    for m, val in got.items():
      ok = self.model.values_between(m, s0, s1)
      if inflight and val == {}:
        self.ctx.probe('query_during_inflight_drain')
        continue
      if val not in ok:
        self.ctx.violation('C02', 'query-mismatch', 'cache-query',
                           'query(%r) returned %r; model values during the query: %r' % (m, val, ok))
    if s1 != s0:
      self.ctx.probe('query_overlapped_by_drain')
    self.ctx.log.add('query', metric, bulk, sorted((m, sorted(v.items())) for m, v in got.items()))

  # ------------------------------------------------------------ R-side ops
  def run_until(self, t):
    r, s = self.r, self.s
    while True:
      self.flush_pending()
      r.run_due()
      if s.now >= t:
        break
      nd = r.next_due()
      s.sleep_until(min(t, nd) if nd is not None else t)
    self.flush_pending()

  def do_op(self, op):
    k = op[0]
    self.ctx.log.add('op', *[repr(x)[:80] for x in op])
    if k == 'send':
      self.send(op[1], op[2])
    elif k == 'udp':
      self.udp(op[1])
    elif k == 'connect':
      self.connect(op[1])
    elif k == 'disconnect':
      live = self.live_conns()
      if live:
        c = live[op[1] % len(live)]
        if not c['t'].reading:
          self.ctx.probe('disconnect_while_paused')
        c['t'].peer_close() if op[2] else c['t'].peer_reset()
    elif k == 'sleep':
      self.run_until(self.s.now + op[1])
    elif k == 'query':
      self.query(op[1])
    elif k == 'bulk':
      self.query(None, bulk=list(op[1]))
    elif k == 'schema':
      from . import boot
      stamp = op[3] if len(op) > 3 else 'now'
      mtime = int(self.s.now) + 1
      path = os.path.join(os.environ['GRAPHITE_ROOT'], 'conf', op[1])
      if stamp == 'same' and os.path.exists(path):
        mtime = os.path.getmtime(path)
        self.ctx.fault('config_file_rewrite_same_mtime')
      elif stamp == 'old':
        mtime = 800000 + len(self.whist) % 1000
        self.ctx.fault('config_file_replaced_by_older_file')
      boot.write_file(op[1], op[2], mtime)
      self.ctx.fault('config_file_rewrite' if op[2] is not None else 'config_file_removed')
    elif k == 'clockjump':
      # the wall clock steps forward (NTP step, VM pause) while the other thread may be
      # between two of its lines
      self.s.now += op[1]
      self.ctx.fault('clock_jump')
    elif k == 'setlag':
      if self.settings.MIN_TIMESTAMP_LAG != op[1]:
        # the strategy samples the lag when a pass begins; with the lag changing under
        # it the per-pass clauses are not defined -- only completeness (with the lag
        # finally in force) is judged from here on
        self.lag_changed = True
      self.settings.MIN_TIMESTAMP_LAG = op[1]
      self.ctx.probe('lag_changed_at_run_time')
    elif k == 'stop_at_wstep':
      # stop injected exactly when the writer thread has executed op[1] more lines
      s = self.s
      s.trigger_fired = False
      s.trigger = ('W', s.tsteps.get('W', 0) + op[1], 'R')
      limit = s.now + 600.0
      s.block_until(lambda: s.trigger_fired or not s.alive('W') or s.now > limit, 'wstep-trigger')
      s.trigger = None
      self.ctx.probe('stop_at_enumerated_writer_line')
      self.do_stop()
    elif k == 'stop':
      self.do_stop()
    elif k == 'wstart':
      self.start_writer()
    self.flush_pending()
    self.r.run_due()
    # the release condition is also evaluated whenever the writer is parked in a sleep
    # and nothing is queued for the reactor thread: nothing but new input could then
    # change the state
    wt = self.s.th.get('W')
    if (self.wmode == 'writer' and wt is not None and wt.alive and wt.wake is not None
        and not self.r.from_thread and not self.stopping):
      self.check_backpressure()

  # ------------------------------------------------------------ writer thread
  def start_writer(self):
    if 'W' in self.s.th:
      return
    if self.wmode == 'writer':
      fn, a, kw = [x for x in self.r.threads if x[0].__name__ == 'writeForever'][0]
      self.s.spawn('W', lambda: fn(*a, **kw))
    else:
      wplan = list(self.plan.get('wops', []))

      def drainer():
        for wop in wplan:
          if wop[0] == 'drain':
            try:
              self.cache.drain_metric()
            except Exception:
              pass
          elif wop[0] == 'sleep':
            self.s.sleep(wop[1])
      self.s.spawn('W', drainer)

  def join_threads(self):
    s = self.s
    if 'W' not in s.th:
      return
    limit = s.now + 3600.0
    s.block_until(lambda: (not s.alive('W')) or s.now > limit, 'join W')
    # block_until only re-evaluates when scheduling happens; sleep in slices
    while s.alive('W') and s.now <= limit:
      s.sleep_until(s.now + 5.0)
    if s.alive('W'):
      self.ctx.violation('C04', 'writer-does-not-exit', 'writeForever',
                         'writer thread still running 1 h (virtual) after reactor.stop()')

  def do_stop(self):
    if self.stopping:
      return
    self.stopping = True
    self.stop_step = self.model.step
    self.stop_time = self.s.now
    self.ctx.log.add('stop-begin', self.model.step)
    w = self.s.th.get('W')
    if w is not None and w.wake is not None:
      self.ctx.probe('stop_while_writer_sleeps')
    elif w is not None:
      self.ctx.probe('stop_while_writer_active')
    if self.model.size:
      self.ctx.probe('stop_with_cached_data')
    n = self.plan.get('stop_window')
    if n and not self.stop_window_done:
      # a 'before shutdown' trigger that takes a while (in a real daemon: the listening
      # ports' stopListening() Deferreds): every service has been told to stop, established
      # connections keep delivering until the trigger's Deferred fires, n operations later
      from twisted.internet.defer import Deferred
      self.window_d = Deferred()
      self.window_left = int(n)
      self.r.addSystemEventTrigger('before', 'shutdown', lambda: self.window_d)
      self.ctx.fault('shutdown_window_with_open_connections')
    self.r.stop()
    if self.window_left is None:
      self.ctx.log.add('stop-end')
      self.check_after_stop()

  def close_stop_window(self):
    if self.window_left is None:
      return
    self.window_left = None
    self.stop_window_done = True
    d, self.window_d = self.window_d, None
    d.callback(None)          # the 'during' and 'after' phases run from here
    self.ctx.log.add('stop-end')
    self.check_after_stop()

  def check_after_stop(self):
    if self.s.alive('W'):
      return
    left = []
    for m, v in self.cache.items():
      for ts in v:
        st = self.last_store.get((m, ts))
        if st is not None and st <= self.stop_step:
          left.append((m, ts, v[ts]))
    if left:
      self.ctx.violation('C04', 'accepted-data-not-written', 'writeForever',
                         'writer thread exited with datapoints accepted before the stop still '
                         'in the cache: %r' % (sorted(left)[:6],))

  # ------------------------------------------------------------ end of run
  def quiesce(self):
    """Run until the writer is idle and no buffered input remains."""
    s = self.s
    self.final_phase = True
    lag = (self.settings.MIN_TIMESTAMP_LAG or 0) if self.strategy == 'timesorted' else 0
    # with the daemon's own reporting on, every virtual second costs traced work: a
    # shorter settling period is enough (the writer drains within a few passes)
    deadline = s.now + (30.0 if self.settings.CARBON_METRIC_INTERVAL else 120.0) + 2 * lag
    for c in self.conns:
      if c['pending'] and c['t'].disconnected:
        c['pending'] = []
    while s.now < deadline:
      self.run_until(s.now + 1.0)
      w = s.th.get('W')
      widle = (w is None) or (not w.alive) or (w.wake is not None)
      if self.lock_held():
        widle = False        # stalled while holding a lock: an operation is in flight
      pend = any(c['pending'] for c in self.conns if not c['t'].disconnected)
      if widle and not pend and (self.wmode != 'writer' or not self.cache_has_data()
                                 or not s.alive('W')):
        if self.wmode == 'writer' and s.alive('W') and s.now < self.last_activity() + 3.0 + lag:
          continue
        break

  def lock_held(self):
    return any(l.owner is not None for l in self.s.locks)

  def cache_has_data(self):
    return any(self.cache.values())

  def last_activity(self):
    for ev in reversed(self.whist):
      if ev[0] == 'drain' and ev[1] is not None:
        return ev[4]
    return 0.0

  def final_drain_clause(self):
    """C17 (iii): with stores stopped, repeated draining hands out everything
    within |metrics| + 2 calls."""
    s = self.s
    lag = self.settings.MIN_TIMESTAMP_LAG or 0
    if lag:
      # "the clock past the lag": every cached datapoint, future-stamped ones
      # included, must be older than the lag before completeness is demanded
      newest = max([s.now] + [ts for v in self.model.d.values() for ts in v])
      self.run_until(newest + lag + 1.0)
    n = len([m for m, c in self.model.counts().items() if c]) + 2
    before = self.model.contents()
    calls = 0
    while calls < n and self.model.size:
      calls += 1
      try:
        self.cache.drain_metric()
      except Exception:
        break
    if self.model.size:
      self.ctx.violation('C17', 'drain-incomplete', self.strategy,
                         'after %d drain calls with no new input the cache still holds %r '
                         '(started with %r)' % (calls, self.model.contents(), before))

  def check_backpressure(self):
    """C09 cache side: quiescent, cache below the low watermark => nobody paused."""
    st = self.w.state
    low = self.low_wm
    if not self.settings.USE_FLOW_CONTROL:
      return
    # the number of datapoints really held (the reference model's count), not the
    # cache's own size counter: a counter that drifted upwards must not excuse the pause
    size = self.model.size
    if st.metricReceiversPaused or st.cacheTooFull:
      self.ctx.probe('paused_at_some_point_end')
    if size < low:
      paused = [c['id'] for c in self.conns if not c['t'].disconnected and not c['t'].reading]
      if st.metricReceiversPaused or paused:
        self.ctx.violation('C09', 'stuck-paused-cache', 'quiescence',
                           'quiescent with %r datapoints held < low watermark %r but '
                           'metricReceiversPaused=%r, cacheTooFull=%r, paused receiver '
                           'connections=%r' % (size, low, st.metricReceiversPaused,
                                               st.cacheTooFull, paused))

  def check_reported_writer_counters(self):
    """C03 with the daemon's own reporting on: what was reported at the instrumentation
    ticks plus what is pending must account for every create, dropped create, error and
    committed point in the backend history."""
    if self.s.alive('W'):
      w = self.s.th.get('W')
      if w is None or w.wake is None:
        return            # mid-pass: the counters of the batch in flight are not settled
    if getattr(self.w.db, 'inflight', None):
      return              # the writer sleeps inside a (slow) backend call: same thing
    if self.lock_held():
      return              # ... or is stalled while holding a lock (cache, statistics)
    calls = self.w.db.calls
    creates_ok = len([r for r in calls if r[2] == 'create' and r[5] == 'ok'])
    errors = len([r for r in calls if r[2] in ('create', 'write') and r[5] == 'raise'])
    committed = sum(len(dict(r[4])) for r in calls if r[2] == 'write' and r[5] == 'ok')
    dropped = 0
    hist = self.whist
    for i, ev in enumerate(hist):
      if ev[0] == 'drain' and ev[1] is not None and ev[2]:
        nxt = [e[1] for e in hist[i + 1:i + 3] if e[0] == 'db']
        if nxt and nxt[0][2] == 'exists' and nxt[0][3] == ev[1] and nxt[0][5] == 'ok' \
            and ev[1] not in self.files_at(nxt[0][0]):
          dropped += 1
    st = self.w.instrumentation.stats
    for name, want in (('creates', creates_ok), ('errors', errors), ('committedPoints', committed),
                       ('droppedCreates', dropped)):
      got = self.reported.get(name, 0) + st.get(name, 0)
      if got != want:
        self.ctx.violation('C03', 'reported-count-differs', name,
                           '%s: the backend history shows %d, the daemon reported %r over its '
                           'instrumentation ticks plus %r pending' % (
                             name, want, self.reported.get(name, 0), st.get(name, 0)))
    self.ctx.probe('reported_writer_counters_checked')

  def check_overflow_counter(self):
    """C10: every refusal feeds the cache.overflow counter -- what was reported at the
    instrumentation ticks plus what is pending equals the refusals signalled."""
    if not self.settings.CARBON_METRIC_INTERVAL:
      return
    total = self.reported.get('cache.overflow', 0) + self.w.instrumentation.stats.get('cache.overflow', 0)
    if total != self.overflow_signals:
      self.ctx.violation('C10', 'overflow-count-lost', 'cache.overflow',
                         '%d refusals were signalled; the cache.overflow counter reported %r over the '
                         'instrumentation ticks plus %r pending' % (
                           self.overflow_signals, self.reported.get('cache.overflow', 0),
                           self.w.instrumentation.stats.get('cache.overflow', 0)))
    self.ctx.probe('instrumentation_ticks_checked')

  def check_conservation(self):
    """C02 (iv): drained ∪ cached == accepted history, exactly once -- follows
    from stepwise refinement; here the end-state cross-check."""
    # the model is stepped when a critical section ends: compare only with the lock free
    for _ in range(400):
      if not self.lock_held():
        break
      self.run_until(self.s.now + 0.25)
    if self.lock_held():
      return
    real = {m: dict(v) for m, v in self.cache.items() if v}
    if real != self.model.d:
      self.ctx.violation('C02', 'final-state-mismatch', 'end',
                         'end of run: cache %r, model %r' % (real, self.model.d))

  def check_writer_history(self):
    """C03 / C19 / C20(B) over the recorded W-side history."""
    ctx = self.ctx
    hist = self.whist
    # split into windows starting at each non-trivial drain
    windows = []
    cur = None
    pre = []
    for ev in hist:
      if ev[0] == 'drain':
        if cur is not None:
          windows.append(cur)
        cur = {'drain': ev, 'events': []}
      elif cur is None:
        pre.append(ev)
      else:
        cur['events'].append(ev)
    if cur is not None:
      cur['final'] = self.stats_snapshot()
      windows.append(cur)
    files = set()
    created_ok = 0
    written = {}      # (m, ts) -> count over *drained generations*
    for ev in hist:
      if ev[0] == 'db' and ev[1][2] == 'create' and ev[1][5] == 'ok':
        created_ok += 1
    tags = ['C03'] + (['C04'] if self.stopping else [])
    w_alive = self.s.alive('W')
    for i, win in enumerate(windows):
      _, metric, dps, stats0, t0, stopping = win['drain']
      nxt = windows[i + 1]['drain'][3] if i + 1 < len(windows) else win.get('final')
      evs = win['events']
      dbs = [e[1] for e in evs if e[0] == 'db']
      logerrs = [e for e in evs if e[0] == 'logerr' and e[1] == 'W']
      if metric is None or not dps:
        continue
      last_window = (i + 1 == len(windows))
      writes = [d for d in dbs if d[2] == 'write' and d[3] == metric]
      other_writes = [d for d in dbs if d[2] == 'write' and d[3] != metric]
      for d in other_writes:
        for tag in tags:
          ctx.violation(tag, 'write-under-other-name', 'write',
                        'batch drained for %r but write went to %r' % (metric, d[3]))
      for d in writes:
        if d[3] not in self.files_at(d[0]):
          for tag in tags:
            ctx.violation(tag, 'write-before-create', 'write',
                          'write(%r) issued although its file was never created' % (d[3],))
      first = dbs[0] if dbs else None
      d_commit = nxt['committedPoints'] - stats0['committedPoints']
      d_err = nxt['errors'] - stats0['errors']
      d_drop = nxt['droppedCreates'] - stats0['droppedCreates']
      create_raises = len([d for d in dbs if d[2] == 'create' and d[5] == 'raise'])
      expect = dict(dps)
      outcome = None
      if len(writes) > 1:
        for tag in tags:
          ctx.violation(tag, 'written-twice', 'write',
                        'batch for %r written %d times' % (metric, len(writes)))
      if first is None:
        if last_window and w_alive:
          continue      # still in flight when the run ended
        outcome = 'nothing'
      elif first[2] == 'exists' and first[3] == metric and first[5] == 'raise':
        outcome = 'exists-raised'
        if not logerrs:
          for tag in tags:
            ctx.violation(tag, 'silent-loss-exists-raised', 'exists',
                          'exists(%r) raised after the drain; no error was logged' % (metric,))
      elif first[2] == 'exists' and first[3] == metric:
        existed = metric in self.files_at(first[0])
        if not existed:
          outcome = 'dropped'
          if writes:
            for tag in tags:
              ctx.violation(tag, 'write-before-create', 'write',
                            'write(%r) issued although the file does not exist' % (metric,))
          elif d_drop != 1:
            for tag in tags:
              ctx.violation(tag, 'drop-not-counted', 'droppedCreates',
                            'batch for %r (no file yet) was discarded; droppedCreates changed by %d'
                            % (metric, d_drop))
        elif not writes:
          if last_window and w_alive:
            continue
          outcome = 'no-write'
          for tag in tags:
            ctx.violation(tag, 'silent-loss', 'write',
                          'batch %r for %r drained, file exists, but no write call followed'
                          % (dps, metric))
        else:
          wr = writes[0]
          got = dict(wr[4])
          if got != expect or len(wr[4]) != len(expect):
            for tag in tags:
              ctx.violation(tag, 'write-content-mismatch', 'write',
                            'drained %r for %r but wrote %r' % (dps, metric, wr[4]))
          if wr[5] == 'ok':
            outcome = 'written'
            if not (last_window and w_alive) and d_commit != len(expect):
              for tag in tags:
                ctx.violation(tag, 'commit-count', 'committedPoints',
                              'wrote %d points for %r; committedPoints changed by %d'
                              % (len(expect), metric, d_commit))
          else:
            outcome = 'write-raised'
            if not (last_window and w_alive) and d_err - create_raises != 1:
              for tag in tags:
                ctx.violation(tag, 'error-not-counted', 'errors',
                              'write(%r) raised; errors changed by %d (create failures in '
                              'window: %d)' % (metric, d_err, create_raises))
      else:
        outcome = 'unexpected-first-call'
        for tag in tags:
          ctx.violation(tag, 'unexpected-call-after-drain', 'writer',
                        'after draining %r the first backend call was %r' % (metric, first[2:4]))
      ctx.sigs.add('w:%s' % outcome)
      ctx.probe('batch_' + str(outcome))
    # writes that belong to no drain window (e.g. before the first drain)
    for ev in pre:
      if ev[0] == 'db' and ev[1][2] == 'write':
        for tag in tags:
          ctx.violation(tag, 'write-without-drain', 'write',
                        'write(%r) with no preceding drain' % (ev[1][3],))
    final = self.stats_snapshot()
    if final['creates'] != created_ok:
      ctx.violation('C03', 'creates-count', 'creates',
                    'creates counter %d but %d create calls succeeded' % (final['creates'], created_ok))
    self.check_creates()
    self.check_rates()

  def files_at(self, call_index):
    """Set of files existing in simdb just before backend call #call_index."""
    out = set()
    for rec in self.w.db.calls:
      if rec[0] >= call_index:
        break
      if rec[2] == 'create' and rec[5] == 'ok':
        out.add(rec[3])
    return out

  # ------------------------------------------------------------ C19
  def check_creates(self):
    import re
    for rec in self.w.db.calls:
      if rec[2] != 'create':
        continue
      idx, _t, _, metric, payload, outcome = rec
      # window in global event order: from the writer's previous backend call
      # (after which it re-reads the schema lists) to this create call
      t = _t
      prev_t = self.w.db.calls[idx - 1][1] if idx > 0 else 0.0
      allowed = []
      for versions_s in self.versions_between(self.ref_schema_versions, prev_t, t):
        for versions_a in self.versions_between(self.ref_agg_versions, prev_t, t):
          exp = ref_create_args(versions_s, versions_a, metric)
          if exp is not None:
            allowed.append(exp)
      if len(set(repr(a) for a in allowed)) > 1:
        self.ctx.probe('create_with_two_schema_versions_in_force')
      got = (list(map(tuple, payload[0])) if payload[0] else payload[0], payload[1], payload[2])
      self.ctx.sigs.add('cr:%s' % (got,))
      if allowed and got not in allowed:
        self.ctx.violation('C19', 'create-args', 'create',
                           'create(%r) called with %r; reference evaluation of the schema files '
                           'in force gives %r' % (metric, got, allowed))

  def versions_between(self, versions, t0, t1):
    """File contents in force at some time in [t0, t1] (last load <= t0 plus
    every load in (t0, t1])."""
    # virtual time, both ends inclusive; a reload at exactly t0 may have run before or
    # after the writer's previous backend call, so the version before it counts too
    last = versions[0][1]
    out = []
    for t, text in versions:
      if t < t0:
        last = text
      elif t <= t1:
        out.append(text)
    return [last] + out

  # ------------------------------------------------------------ C20 (writer side)
  def mark_limits_changed(self):
    self.limits_marker = (self.w.db.ncalls, self.s.now)

  def check_rates(self):
    s = self.settings
    for kind, limit, per in (('write', s.MAX_UPDATES_PER_SECOND, 1.0),
                             ('create', s.MAX_CREATES_PER_MINUTE, 60.0)):
      if limit == float('inf'):
        continue
      times = [rec[1] for rec in self.w.db.calls if rec[2] == kind]
      # after the stop has switched the limits: every window lying entirely behind that
      # point obeys the *new* rate and burst (MAX_UPDATES_PER_SECOND_ON_SHUTDOWN for both)
      try:
        shut0 = s.MAX_UPDATES_PER_SECOND_ON_SHUTDOWN
      except Exception:
        shut0 = None
      if self.limits_marker is not None and shut0 is not None:
        after = [rec[1] for rec in self.w.db.calls if rec[2] == kind and rec[0] >= self.limits_marker[0]]
        for i in range(len(after)):
          for j in range(i + 1, len(after)):
            n = j - i + 1
            allowed = float(shut0) * (after[j] - after[i]) + 2 * float(shut0)
            if n > allowed + 1e-6:
              self.ctx.violation('C20', 'rate-window-exceeded-after-shutdown-change', kind,
                                 '%d %s calls in [%.6f, %.6f] after the shutdown limits (%r/s, burst %r) '
                                 'were in force; that allows %.3f' % (n, kind, after[i], after[j], shut0,
                                                                       shut0, allowed))
              return
      if len(times) < 2:
        continue
      self.ctx.probe('rate_limited_%s_calls' % kind, len(times))
      shut = None
      try:
        shut = s.MAX_UPDATES_PER_SECOND_ON_SHUTDOWN
      except Exception:
        shut = None
      for i in range(len(times)):
        for j in range(i + 1, len(times)):
          t0, t1 = times[i], times[j]
          n = j - i + 1
          # piecewise rate: configured before the stop, shutdown rate after
          rate = limit / per
          burst = float(limit)
          allowed = rate * (t1 - t0) + 2 * burst
          if self.stopping and shut is not None and t1 >= self.stop_time:
            ta = max(t0, self.stop_time)
            allowed = rate * max(0.0, ta - t0) + float(shut) * (t1 - ta) + 2 * max(burst, float(shut)) \
                + float(shut)
          if n > allowed + 1e-6:
            self.ctx.violation('C20', 'rate-window-exceeded', kind,
                               '%d %s calls in [%.6f, %.6f] (%.6fs); limit %r per %gs allows %.3f'
                               % (n, kind, t0, t1, t1 - t0, limit, per, allowed))
            return

  # ------------------------------------------------------------ main
  def run(self):
    plan, s, ctx = self.plan, self.s, self.ctx
    self.install()
    s.start()
    for k in range(plan.get('nconn', 1)):
      self.connect(plan.get('conn_kinds', ['line'])[k % len(plan.get('conn_kinds', ['line']))])
    if plan.get('wstart', 0) == 0:
      self.start_writer()
    for i, op in enumerate(plan['ops']):
      if plan.get('wstart', 0) == i and i:
        self.start_writer()
      in_window = self.window_left is not None
      self.do_op(op)
      if in_window and self.window_left is not None:
        self.window_left -= 1
        if self.window_left <= 0:
          self.close_stop_window()
      if self.stopping and self.window_left is None:
        break
    self.close_stop_window()
    self.start_writer()
    self.w_steps_at_ops_end = self.s.tsteps.get('W', 0)
    if not self.stopping:
      if self.wmode == 'writer':
        self.quiesce()
        self.check_backpressure()
        if plan.get('stop_at_end'):
          self.do_stop()
      else:
        s.block_until(lambda: not s.alive('W'), 'W plan')
        while s.alive('W'):
          s.sleep_until(s.now + 1.0)
        self.final_phase = True
        self.run_until(s.now)
        self.check_backpressure_drainer()
        self.final_drain_clause()
    self.check_conservation()
    self.check_overflow_counter()
    if self.wmode == 'writer' and not self.settings.CARBON_METRIC_INTERVAL:
      self.check_writer_history()
    elif self.wmode == 'writer':
      self.check_reported_writer_counters()
    self.finish('done')

  def check_backpressure_drainer(self):
    pass

  def finish(self, reason):
    try:
      sys_settrace_off()
      if reason == 'stepcap':
        self.ctx.note('step cap reached')
      if reason.startswith('deadlock') or reason == 'self-deadlock':
        self.ctx.violation('C02', 'deadlock', 'scheduler', 'all threads blocked: %s' % reason)
      for name, rep, tb in self.s.thread_errors:
        self.ctx.note('thread %s died: %s' % (name, rep))
        if name == 'W' and self.wmode == 'writer':
          self.ctx.violation('C03', 'writer-thread-died', 'writeForever',
                             'writer thread terminated by %s' % rep)
    finally:
      self.finish_cb(reason, {'sim_seconds': self.s.now - 1000000.0,
                              'db_calls': self.w.db.ncalls, 'drains': self.ndrains,
                              'w_steps_after_ops': self.s.tsteps.get('W', 0) -
                              getattr(self, 'w_steps_at_ops_end', 0),
                              'strategy': self.strategy})


def sys_settrace_off():
  import sys
  sys.settrace(None)


def ref_parseable(text, name):
  """Can the documented file format be read at all (ini syntax, unique sections,
  compilable patterns)?"""
  import re
  from configparser import ConfigParser
  cp = ConfigParser(interpolation=None)
  try:
    cp.read_string(text)
    for sec in cp.sections():
      pat = dict(cp.items(sec)).get('pattern')
      if pat:
        re.compile(pat)
  except Exception:
    return False
  return True


def ref_create_args(schemas_text, agg_text, metric):
  """Reference evaluator for C19, written from conf/storage-schemas.conf.example and
  storage-aggregation.conf.example: first matching section in file order;
  sections lacking pattern/retentions are ignored; defaults 60:7d / (None, None)."""
  import re
  from configparser import ConfigParser

  def sections(text):
    if not text:
      return []
    cp = ConfigParser(interpolation=None)
    try:
      cp.read_string(text)
    except Exception:
      return None
    out = []
    # file order
    order = []
    for line in text.splitlines():
      line = line.strip()
      if line.startswith('[') and line.endswith(']'):
        name = line[1:-1]
        if name not in order:
          order.append(name)
    for name in order:
      if cp.has_section(name):
        out.append((name, dict(cp.items(name))))
    return out
  ss = sections(schemas_text)
  aa = sections(agg_text)
  if ss is None or aa is None:
    return None
  archives = None
  for name, opts in ss:
    if not opts.get('pattern') or 'retentions' not in opts:
      continue
    try:
      arch = [ref_parse_retention(x) for x in opts['retentions'].split(',')]
    except Exception:
      return None
    if re.search(opts['pattern'], metric):
      archives = arch
      break
  if archives is None:
    archives = [(60, 60 * 24 * 7)]
  xff, method = None, None
  for name, opts in aa:
    if not opts.get('pattern'):
      continue
    if re.search(opts['pattern'], metric):
      x = opts.get('xfilesfactor')
      xff = float(x) if x is not None else None
      method = opts.get('aggregationmethod')
      break
  return (archives, xff, method)
