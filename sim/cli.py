"""Command line: check <Cnn> [--tier quick|thorough], check replay <file>,
check selftest, check mutants."""
import argparse
import importlib
import json
import os
import sys
import time

from . import core, runner
from .core import jdump

PROPS = ['C01', 'C02', 'C03', 'C04', 'C05', 'C06', 'C07', 'C08', 'C09', 'C10', 'C11', 'C12',
         'C15', 'C16', 'C17', 'C19', 'C20']

COMPONENTS = {
  'real': ['all of lib/carbon on the exercised paths (imported from the tree under test)',
           'carbon.conf option parser and service.create*Service() assembly',
           'twisted LineOnlyReceiver / Int32StringReceiver / TimeoutMixin / ReconnectingClientFactory '
           '/ BaseConnector / Deferred / DelayedCall / LoopingCall / _ThreePhaseEvent / service tree',
           'pickle, re, configparser, cachetools'],
  'stub': ['reactor core and event loop (sim.reactor.SimReactor)', 'sockets / TCP / UDP (SimTransport, SimConnector)',
           'OS thread scheduling (sim.sched.Sched: real threads, one runnable at a time)',
           'time.time / time.sleep (virtual clock)', 'threading.Lock of the cache (SimLock)',
           'storage backend (in-memory plugin simdb via carbon plugin registry)',
           'instrumentation CPU / memory readers, hostname'],
  'absent': ['protobuf', 'AMQP', 'manhole', 'whisper', 'ceres', 'mmh3', 'SSL transport'],
}


def load_prop(pid):
  return importlib.import_module('sim.props.%s' % pid.lower())


def base_seed():
  try:
    return int(os.environ.get('VERIF_SEED', '20261002'))
  except ValueError:
    return 20261002


def write_evidence(mod, tier, seed, merged, extra_cov=None):
  os.makedirs(runner.EVIDENCE_DIR, exist_ok=True)
  unknown = [v for v in merged['violations'] if not v.get('known')]
  known = [v for v in merged['violations'] if v.get('known')]
  wall = merged.get('wall_s', 0.0) or 1e-9
  cov = {
    'evaluations': merged['runs'],
    'distinct_nontrivial': len(merged['nt_digests']),
    'rule': getattr(mod, 'RULE', 'seeded simulated runs; a run is non-trivial when it reached at '
                    'least one rare-condition probe; distinct = distinct event-log digests (two runs '
                    'with equal digests executed the same events in the same order)'),
    'samples': merged['samples'] or [{'note': 'no non-trivial run sampled'}],
    'distinct_executions': len(merged['digests']),
    'distinct_interleaving_or_state_signatures': len(merged['sigs']),
    'configurations_booted': merged['groups'],
    'distinct_configurations': len(merged['cfgs']),
    'runs_per_hour': int(merged['runs'] / wall * 3600),
    'sim_seconds_total': round(merged['sim_seconds'], 3),
    'scheduler_steps_total': merged['steps'],
    'faults_fired': merged['faults'],
    'probes': merged['probes'],
    'run_endings': merged['ends'],
    'components': COMPONENTS,
    'known_findings_hit': sorted(set(v['sig'] for v in known)),
    'skipped_groups_wall_budget': merged.get('skipped_groups', 0),
    'enumerated_placements': merged.get('enumerated', 0),
    'harness_errors': len(merged['harness_errors']),
    'notes': merged['notes'],
  }
  if extra_cov:
    cov.update(extra_cov)
  ev = {
    'property_id': mod.PROP, 'tier': tier, 'seed': seed,
    'level': getattr(mod, 'LEVEL', 'exploration'),
    'coverage': cov,
    'assumptions': getattr(mod, 'ASSUMPTIONS', []) + [
      'pre-emption granularity is one source line of the traced carbon files; C-level dict/deque '
      'operations are atomic (GIL)',
      'sampling, not proof: a clean batch is evidence over the seeds explored'],
    'wall_s': round(wall, 3),
    'violations': len(set(v['sig'] for v in unknown)),
  }
  path = os.path.join(runner.EVIDENCE_DIR, '%s.json' % mod.PROP)
  with open(path, 'w') as f:
    json.dump(ev, f, indent=1, sort_keys=True, default=core._jdefault)
  return path


def cmd_check(pid, tier, args):
  mod = load_prop(pid)
  seed = base_seed()
  groups, rpg, budget = getattr(mod, tier.upper())
  if args.groups:
    groups = args.groups
  if args.runs:
    rpg = args.runs
  if args.budget:
    budget = args.budget
  print('SEED %d property=%s tier=%s groups=%d runs/group=%d nproc=%d repo=%s' % (
    seed, pid, tier, groups, rpg, runner.NPROC, os.environ.get('VERIF_REPO', '/repo')))
  sys.stdout.flush()
  import glob
  for old in glob.glob(os.path.join(runner.REPLAY_DIR, '%s-*.json' % pid)):
    try:
      os.unlink(old)        # replay files of an earlier run of this check
    except OSError:
      pass
  merged = runner.drive(mod, tier, seed, groups, rpg, budget,
                        {'minimise': not args.no_minimise})
  extra = None
  if hasattr(mod, 'post'):
    extra = mod.post(merged, tier, seed)
  path = write_evidence(mod, tier, seed, merged, extra)
  unknown = [v for v in merged['violations'] if not v.get('known')]
  known = {}
  for v in merged['violations']:
    if v.get('known'):
      known[v['sig']] = v['what']
  print('runs=%d nontrivial=%d distinct=%d sim_seconds=%.0f wall=%.1fs probes=%s faults=%s' % (
    merged['runs'], merged['nontrivial'], len(merged['digests']), merged['sim_seconds'],
    merged['wall_s'], jdump(merged['probes']), jdump(merged['faults'])))
  for sig, what in sorted(known.items()):
    print('KNOWN-FINDING: property=%s %s [%s]' % (pid, what, sig))
  rc = 0
  if merged['harness_errors']:
    for h in merged['harness_errors'][:5]:
      print('HARNESS-ERROR %s' % h.strip().replace('\n', '\n    '))
    rc = 2
  seen = set()
  for v in sorted(unknown, key=lambda v: (bool(v.get('dup')), v['sig'])):
    if v['sig'] in seen:
      continue
    seen.add(v['sig'])
    print('VIOLATION property=%s replay=%s' % (pid, v.get('replay')))
    print('  sig=%s seed=%s occurrences=%d' % (
      v['sig'], v.get('seed'), len([x for x in unknown if x['sig'] == v['sig']])))
    info = v.get('info') or {}
    print('  %s' % (info.get('detail_minimised') or v.get('detail')))
    if info:
      print('  minimised: %s' % jdump({k: x for k, x in info.items() if k != 'detail_minimised'}))
    rc = 1
  if merged.get('skipped_groups'):
    print('note: %d groups skipped (wall budget)' % merged['skipped_groups'])
  print('evidence: %s' % path)
  return rc


def cmd_replay(path):
  with open(path) as f:
    doc = json.load(f)
  mod = load_prop(doc['property'])
  w = mod.boot(doc['cfg'])
  res = runner.run_child(w, mod, doc['plan'], {'explicit': doc['choices']})
  from . import boot
  boot.cleanup_scratch()
  if 'harness_error' in res:
    print('HARNESS-ERROR replay failed to execute:\n%s' % res['harness_error'])
    return 2
  sigs = [v['sig'] for v in res.get('violations', [])]
  print('replayed %s: digest=%s expected=%s violations=%s' % (
    path, res.get('digest'), doc.get('digest'), sigs))
  if doc['sig'] in sigs:
    same = res.get('digest') == doc.get('digest')
    print('VIOLATION property=%s replay=%s' % (doc['property'], path))
    for v in res['violations']:
      if v['sig'] == doc['sig']:
        print('  %s' % v['detail'])
    print('  event-log digest %s' % ('identical' if same else 'DIFFERS (code changed since recording?)'))
    return 1
  print('replay did not reproduce %s' % doc['sig'])
  return 0


def main(argv=None):
  ap = argparse.ArgumentParser(prog='check')
  ap.add_argument('what')
  ap.add_argument('arg', nargs='?')
  ap.add_argument('--tier', default=os.environ.get('VERIF_TIER', 'quick'))
  ap.add_argument('--groups', type=int)
  ap.add_argument('--runs', type=int)
  ap.add_argument('--budget', type=float)
  ap.add_argument('--no-minimise', action='store_true')
  ap.add_argument('--replay')
  args = ap.parse_args(argv)
  if args.what == 'replay':
    sys.exit(cmd_replay(args.arg))
  if args.replay:
    sys.exit(cmd_replay(args.replay))
  if args.what == 'selftest':
    from . import selftest
    sys.exit(selftest.main(args))
  if args.what == 'mutants':
    from . import mutants
    sys.exit(mutants.main(args))
  pid = args.what.upper()
  if pid not in PROPS:
    print('unknown property %s' % pid)
    sys.exit(2)
  tier = args.tier if args.tier in ('quick', 'thorough') else 'quick'
  sys.exit(cmd_check(pid, tier, args))
