"""Determinism self-test: every sampled seed is executed twice in this
interpreter and once more in a fresh interpreter under another PYTHONHASHSEED;
the event-log digests must be identical.  Every run's recorded schedule is also
re-executed in explicit mode (no PRNG draw) and must give the same digest."""
import importlib
import json
import os
import subprocess
import sys

from . import runner, core


def available_props():
  from .cli import PROPS
  out = []
  for p in PROPS:
    try:
      importlib.import_module('sim.props.%s' % p.lower())
      out.append(p)
    except ImportError:
      pass
  return out


def collect(pid, tier, seed, groups, runs):
  mod = importlib.import_module('sim.props.%s' % pid.lower())
  merged = runner.drive(mod, tier, seed, groups, runs, 0, {'collect': True, 'minimise': False})
  rows = sorted((c['seed'], c['digest'], tuple(c['violations'])) for c in merged['collected'])
  errs = list(merged['harness_errors'])
  for c in merged['collected']:
    if c.get('replay_digest') != c['digest']:
      errs.append('seed %s: recorded schedule replays to digest %s, the run had %s' % (
        c['seed'], c.get('replay_digest'), c['digest']))
  return rows, errs


def main(args):
  if args.arg == '_emit':
    pid, tier, seed, groups, runs = os.environ['SELFTEST_SPEC'].split(',')
    rows, errs = collect(pid, tier, int(seed), int(groups), int(runs))
    print('SELFTEST-ROWS ' + json.dumps({'rows': rows, 'errs': errs}))
    return 0
  runs = args.runs or 6
  groups = args.groups or 2
  seed = int(os.environ.get('VERIF_SEED', '777'))
  props = available_props()
  if args.arg:
    props = [p for p in args.arg.upper().split(',')]
  bad = 0
  total = 0
  for pid in props:
    a, ea = collect(pid, 'quick', seed, groups, runs)
    b, eb = collect(pid, 'quick', seed, groups, runs)
    env = dict(os.environ)
    env['PYTHONHASHSEED'] = '4242'
    env['VERIF_NPROC'] = '3'
    env['SELFTEST_SPEC'] = '%s,quick,%d,%d,%d' % (pid, seed, groups, runs)
    out = subprocess.run([sys.executable, os.path.join(core.VERIF_ROOT, 'check'), 'selftest', '_emit'],
                         env=env, capture_output=True, text=True, timeout=600)
    c = None
    for line in out.stdout.splitlines():
      if line.startswith('SELFTEST-ROWS '):
        c = [tuple(x if not isinstance(x, list) else tuple(x) for x in r)
             for r in json.loads(line[len('SELFTEST-ROWS '):])['rows']]
    a = [tuple(r) for r in a]
    b = [tuple(r) for r in b]
    total += len(a)
    ok = (a == b) and (c is not None) and (a == c) and not ea and not eb and len(a) == groups * runs
    print('selftest %s: %d seeds x (2 runs here + 1 fresh interpreter, other PYTHONHASHSEED, nproc 3): %s' % (
      pid, len(a), 'identical' if ok else 'MISMATCH'))
    if not ok:
      bad += 1
      if ea or eb:
        print('  harness errors: %s' % (ea or eb)[:2])
      if c is None:
        print('  fresh interpreter produced no rows: %s' % out.stderr[-800:])
      else:
        for x, y, z in zip(a, b, c):
          if not (x == y == z):
            print('  seed %s: %s | %s | %s' % (x[0], x[1:], y[1:], z[1:]))
            break
  if bad:
    print('HARNESS-ERROR determinism self-test failed for %d properties' % bad)
    return 2
  print('determinism self-test passed (%d seeds)' % total)
  return 0
