"""Seeded search driver: groups of runs, fork-per-run isolation, minimisation,
replay files, evidence.

Process tree:  main  ->  one *booter* per configuration group (<= NPROC alive)
               booter boots the daemon once (real option parser + service
               assembly), then fork()s one child per run; the child executes
               one plan on the pristine image and reports through a pipe.
"""
import json
import os
import select
import signal
import sys
import time
import traceback

from . import core
from .core import derive_seed, stream, Choices, RunCtx, jdump

NPROC = int(os.environ.get('VERIF_NPROC', '16'))
RUN_TIMEOUT = float(os.environ.get('VERIF_RUN_TIMEOUT', '90'))
REPLAY_DIR = os.path.join(core.VERIF_ROOT, 'replays')
EVIDENCE_DIR = os.path.join(core.VERIF_ROOT, 'evidence')
KNOWN_PATH = os.path.join(core.VERIF_ROOT, 'known_findings.json')


def load_known():
  try:
    with open(KNOWN_PATH) as f:
      return json.load(f)
  except IOError:
    return {'findings': [], 'fixed': []}


def match_known(known, v):
  for k in known.get('findings', []):
    if k['property'] == v['prop'] and k['sig'] == v['sig']:
      return k
  return None


# ---------------------------------------------------------------------------
# one run in a forked child
# ---------------------------------------------------------------------------
def _read_all(fd, timeout):
  buf = b''
  deadline = time.time() + timeout
  while True:
    left = deadline - time.time()
    if left <= 0:
      return None
    r, _, _ = select.select([fd], [], [], left)
    if not r:
      return None
    chunk = os.read(fd, 1 << 16)
    if not chunk:
      return buf
    buf += chunk


def run_child(w, mod, plan, chspec, timeout=None):
  """Execute one plan in a forked child of the booted world.  Returns the
  result dict, or {'harness_error': ...}."""
  from . import boot
  boot.write_conf(w.cfg)            # restore files a previous run may have rewritten
  rfd, wfd = os.pipe()
  sys.stdout.flush()
  sys.stderr.flush()
  pid = os.fork()
  if pid == 0:
    os.close(rfd)
    code = 0
    try:
      try:
        # a 17-byte garbage pickle (LONG_BINPUT with a 32-bit memo index) makes CPython's
        # unpickler try to allocate tens of gigabytes: bound the address space so that it
        # fails fast with MemoryError instead of thrashing until the watchdog kills the run
        import resource
        lim = int(os.environ.get('VERIF_RLIMIT_AS', str(6 << 30)))
        resource.setrlimit(resource.RLIMIT_AS, (lim, lim))
      except Exception:
        pass
      if not os.environ.get('VERIF_DEBUG'):
        # CPython prints "deallocated bytearray object has exported buffers" and
        # similar diagnostics for some garbage pickles; harness errors travel in
        # the result, so the child's stderr carries nothing we need
        dn = os.open(os.devnull, os.O_WRONLY)
        os.dup2(dn, 2)
      ch = Choices(seed=chspec.get('seed'), explicit=chspec.get('explicit'),
                   p_preempt=chspec.get('p_preempt', 0.0), p_tie=chspec.get('p_tie', 0.5),
                   pct_points=chspec.get('pct_points'))
      ctx = RunCtx(ch)

      def finish(reason, extra=None):
        res = ctx.result(extra)
        res['end'] = reason
        try:
          os.write(wfd, jdump(res).encode())
        finally:
          os._exit(0)
      mod.execute(w, plan, ctx, finish)
      finish('returned')
    except SystemExit:
      code = 3
      _emit(wfd, {'harness_error': 'SystemExit in run\n' + traceback.format_exc()})
    except BaseException:
      code = 3
      _emit(wfd, {'harness_error': traceback.format_exc()})
    os._exit(code)
  os.close(wfd)
  data = _read_all(rfd, timeout or RUN_TIMEOUT)
  os.close(rfd)
  if data is None:
    try:
      os.kill(pid, signal.SIGKILL)
    except OSError:
      pass
    os.waitpid(pid, 0)
    return {'harness_error': 'run timed out (wall clock) and was killed'}
  os.waitpid(pid, 0)
  if not data:
    return {'harness_error': 'child died without a result'}
  try:
    return json.loads(data.decode())
  except ValueError:
    return {'harness_error': 'unparsable child result: %r' % data[:200]}


def _emit(fd, obj):
  try:
    os.write(fd, jdump(obj).encode())
  except OSError:
    pass


# ---------------------------------------------------------------------------
# minimisation (delta debugging on ops, faults and schedule deviations)
# ---------------------------------------------------------------------------
class Minimiser(object):
  def __init__(self, w, mod, sig, budget_runs=250, budget_s=45.0):
    self.w, self.mod, self.sig = w, mod, sig
    self.runs = 0
    self.budget_runs = budget_runs
    self.deadline = time.time() + budget_s

  def fails(self, plan, explicit):
    if self.runs >= self.budget_runs or time.time() > self.deadline:
      return None
    self.runs += 1
    res = run_child(self.w, self.mod, plan, {'explicit': explicit})
    if 'harness_error' in res:
      return None
    for v in res.get('violations', []):
      if v['sig'] == self.sig:
        return res
    return None

  def ddmin_list(self, items, test):
    """Classic ddmin; test(sublist) -> bool.  Returns a 1-minimal-ish sublist."""
    n = 2
    while len(items) >= 2:
      chunk = max(1, len(items) // n)
      subsets = [items[i:i + chunk] for i in range(0, len(items), chunk)]
      reduced = False
      for i in range(len(subsets)):
        comp = [x for j, sub in enumerate(subsets) if j != i for x in sub]
        if test(comp):
          items = comp
          n = max(n - 1, 2)
          reduced = True
          break
      if not reduced:
        if chunk == 1:
          break
        n = min(len(items), n * 2)
      if self.runs >= self.budget_runs or time.time() > self.deadline:
        break
    if len(items) == 1 and test([]):
      items = []
    return items

  def minimise(self, plan, explicit):
    plan = json.loads(jdump(plan))
    explicit = json.loads(jdump(explicit))
    for key in getattr(self.mod, 'SHRINK_LISTS', ['ops']):
      if isinstance(plan.get(key), list) and plan[key]:
        def t(sub, key=key):
          p = dict(plan)
          p[key] = sub
          return self.fails(p, explicit) is not None
        plan[key] = self.ddmin_list(list(plan[key]), t)
    for key in getattr(self.mod, 'SHRINK_DICTS', ['db_faults']):
      if isinstance(plan.get(key), dict) and plan[key]:
        def t(sub, key=key):
          p = dict(plan)
          p[key] = dict(sub)
          return self.fails(p, explicit) is not None
        plan[key] = dict(self.ddmin_list(sorted(plan[key].items()), t))
    if explicit.get('pre'):
      def t(sub):
        e = dict(explicit)
        e['pre'] = sub
        return self.fails(plan, e) is not None
      explicit['pre'] = self.ddmin_list(list(explicit['pre']), t)
    for tag in list(explicit.get('picks', {})):
      items = sorted(explicit['picks'][tag].items())

      def t(sub, tag=tag):
        e = json.loads(jdump(explicit))
        e['picks'][tag] = dict(sub)
        return self.fails(plan, e) is not None
      explicit['picks'][tag] = dict(self.ddmin_list(items, t))
    shrink = getattr(self.mod, 'shrink_plan', None)
    if shrink is not None:
      progress = True
      while progress and self.runs < self.budget_runs and time.time() < self.deadline:
        progress = False
        for cand in shrink(plan):
          if self.fails(cand, explicit) is not None:
            plan = cand
            progress = True
            break
    return plan, explicit


# ---------------------------------------------------------------------------
# booter: one configuration, many runs
# ---------------------------------------------------------------------------
def simboot_instance_split(rng, cfg):
  """In a quarter of the configuration groups some settings live in the instance section
  ([cache:a] ...) of carbon.conf and the program section carries a different value for
  them: what is in force is the instance section's value (cfg['settings'] is unchanged)."""
  if cfg.get('daemon') not in ('cache', 'relay', 'aggregator') or rng.random() >= 0.25:
    return
  s = cfg.get('settings', {})
  keys = [k for k in sorted(s) if k != 'deep_backlog' and isinstance(s[k], (bool, int, float))]
  if not keys:
    return
  decoys = {}
  for k in rng.sample(keys, min(len(keys), rng.randint(1, 3))):
    v = s[k]
    if isinstance(v, bool):
      decoys[k] = not v
    elif v == float('inf'):
      decoys[k] = rng.choice([1, 7, 100])
    elif isinstance(v, int):
      decoys[k] = rng.choice([v * 3 + 5, v + 100, float('inf') if k.startswith('MAX_') else v * 2 + 1])
    else:
      decoys[k] = v * 2 + 1.5
  cfg['instance_decoys'] = decoys


def normal_form(plan):
  """The plan exactly as a replay file gives it back (tuples become lists, sets sorted
  lists, dict keys strings; bytes stay bytes): the event log quotes plan operations, so a
  run and its replay must execute the same object."""
  def nf(o):
    if isinstance(o, dict):
      return {(k if isinstance(k, str) else json.dumps(k)): nf(v) for k, v in o.items()}
    if isinstance(o, (list, tuple)):
      return [nf(x) for x in o]
    if isinstance(o, (set, frozenset)):
      return [nf(x) for x in sorted(o)]
    return o
  return nf(plan)


def booter(mod, tier, base_seed, gi, nruns, opts):
  out = {'runs': 0, 'nontrivial': 0, 'digests': [], 'nt_digests': [], 'probes': {}, 'faults': {},
         'violations': [], 'harness_errors': [], 'sim_seconds': 0.0, 'steps': 0,
         'sigs': [], 'samples': [], 'notes': [], 'cfg_sig': None, 'ends': {}}
  cfg_seed = derive_seed(base_seed, mod.PROP, tier, 'cfg', gi)
  cfg = mod.gen_config(stream(cfg_seed, 'config'), tier)
  simboot_instance_split(stream(cfg_seed, 'instance'), cfg)
  out['cfg_sig'] = mod.cfg_sig(cfg) if hasattr(mod, 'cfg_sig') else jdump(cfg)[:200]
  try:
    w = mod.boot(cfg)
  except BaseException:
    out['harness_errors'].append('boot failed for cfg %s\n%s' % (jdump(cfg)[:400], traceback.format_exc()))
    return out
  known = load_known()
  sigs = set()
  reported = set()
  def absorb(seed, plan, res, enumerated=False):
    out['runs'] += 1
    if enumerated:
      out['enumerated'] = out.get('enumerated', 0) + 1
    if 'harness_error' in res:
      if len(out['harness_errors']) < 3:
        out['harness_errors'].append('seed %d: %s' % (seed, res['harness_error'][-1500:]))
      return False
    out['ends'][res.get('end', '?')] = out['ends'].get(res.get('end', '?'), 0) + 1
    out['sim_seconds'] += res.get('sim_seconds', 0.0)
    out['steps'] += res.get('steps', 0)
    for k, v in res.get('probes', {}).items():
      out['probes'][k] = out['probes'].get(k, 0) + v
    for k, v in res.get('faults', {}).items():
      out['faults'][k] = out['faults'].get(k, 0) + v
    out['digests'].append(res['digest'])
    nt = mod.nontrivial(res) if hasattr(mod, 'nontrivial') else bool(res.get('probes'))
    if nt:
      out['nontrivial'] += 1
      out['nt_digests'].append(res['digest'])
    sigs.update(res.get('sigs', []))
    if len(out['samples']) < 2 and nt:
      out['samples'].append({'seed': seed, 'cfg': out['cfg_sig'], 'plan': _abbrev(plan),
                             'probes': res.get('probes'), 'end': res.get('end')})
    if opts.get('collect') and not enumerated:
      out.setdefault('collected', []).append({'seed': seed, 'digest': res['digest'],
                                              'violations': [v['sig'] for v in res['violations']]})
    for n in res.get('notes', []):
      if len(out['notes']) < 5:
        out['notes'].append(n)
    for v in res.get('violations', []):
      if v['prop'] != mod.PROP:
        continue
      k = match_known(known, v)
      if k is not None:
        out['violations'].append({'known': True, 'sig': v['sig'], 'what': k['what']})
        continue
      if v['sig'] in reported or existing_replay(mod.PROP, v['sig']):
        out['violations'].append({'known': False, 'sig': v['sig'], 'dup': True,
                                  'replay': existing_replay(mod.PROP, v['sig']), 'seed': seed,
                                  'detail': v['detail']})
        continue
      reported.add(v['sig'])
      path, info = make_replay(w, mod, cfg, plan, res, v, seed, tier, minimise=opts.get('minimise', True))
      out['violations'].append({'known': False, 'sig': v['sig'], 'detail': v['detail'],
                                'replay': path, 'seed': seed, 'info': info})
    return True

  enum_every = getattr(mod, 'ENUM_EVERY', {}).get(tier)
  for ri in range(nruns):
    seed = derive_seed(base_seed, mod.PROP, tier, 'run', gi, ri)
    plan = normal_form(mod.gen_plan(stream(seed, 'plan'), cfg, tier))
    chspec = {'seed': derive_seed(seed, 'sched'), 'p_preempt': plan.get('p_preempt', 0.0),
              'p_tie': plan.get('p_tie', 0.5), 'pct_points': plan.get('pct_points')}
    res = run_child(w, mod, plan, chspec)
    ok = absorb(seed, plan, res)
    if ok and opts.get('collect'):
      # self-test: the schedule a run recorded, executed without any PRNG draw on the plan
      # as a replay file would store it, must be the same execution
      rep = run_child(w, mod, normal_form(plan), {'explicit': res['choices']})
      out['collected'][-1]['replay_digest'] = rep.get('digest', rep.get('harness_error', '?')[-200:])
    if ok and enum_every and ri % enum_every == 0 and hasattr(mod, 'enumerate_variants'):
      # fault / crash-point enumeration relative to this seeded base run: the same plan
      # is re-executed once per placement, from the schedule the base run recorded
      base = mod.enumeration_base(plan) if hasattr(mod, 'enumeration_base') else plan
      if base is not plan:
        base = normal_form(base)
      bres = res
      if base is not plan:
        bres = run_child(w, mod, base, chspec)
        if not absorb(seed, base, bres, enumerated=True):
          continue
      for vplan in mod.enumerate_variants(base, bres, stream(seed, 'enum'), tier):
        vplan = normal_form(vplan)
        vres = run_child(w, mod, vplan, {'explicit': bres['choices']})
        absorb(seed, vplan, vres, enumerated=True)
  out['sigs'] = sorted(sigs)
  return out


def _abbrev(plan):
  s = jdump(plan)
  if len(s) > 1500:
    p = dict(plan)
    for k, v in list(p.items()):
      if isinstance(v, list) and len(v) > 12:
        p[k] = v[:12] + ['... %d more' % (len(v) - 12)]
    s = jdump(p)
  return json.loads(s) if len(s) < 6000 else s[:1500]


def sig_tag(sig):
  import hashlib
  return hashlib.sha256(sig.encode()).hexdigest()[:8]


def existing_replay(prop, sig):
  import glob
  g = sorted(glob.glob(os.path.join(REPLAY_DIR, '%s-%s-*.json' % (prop, sig_tag(sig)))))
  return g[0] if g else None


def make_replay(w, mod, cfg, plan, res, v, seed, tier, minimise=True):
  os.makedirs(REPLAY_DIR, exist_ok=True)
  # claim the signature early so that concurrent groups do not minimise it again
  path = os.path.join(REPLAY_DIR, '%s-%s-%d.json' % (mod.PROP, sig_tag(v['sig']), seed))
  with open(path, 'w') as f:
    f.write(jdump({'property': mod.PROP, 'tier': tier, 'seed': seed, 'sig': v['sig'],
                   'detail': v['detail'], 'digest': res.get('digest'), 'cfg': cfg, 'plan': plan,
                   'choices': res['choices'], 'info': {'minimised': False}}))
  explicit = res['choices']
  info = {}
  # 1. the recorded schedule must reproduce the violation exactly
  rep = run_child(w, mod, plan, {'explicit': explicit})
  ok = 'harness_error' not in rep and any(x['sig'] == v['sig'] for x in rep.get('violations', []))
  info['explicit_replay_reproduces'] = ok
  info['digest_equal'] = ok and rep.get('digest') == res.get('digest')
  mplan, mexp = plan, explicit
  if ok and minimise:
    m = Minimiser(w, mod, v['sig'])
    mplan, mexp = m.minimise(plan, explicit)
    info['minimiser_runs'] = m.runs
    final = run_child(w, mod, mplan, {'explicit': mexp})
    if 'harness_error' in final or not any(x['sig'] == v['sig'] for x in final.get('violations', [])):
      mplan, mexp, final = plan, explicit, rep
    info['ops_before'] = sum(len(plan.get(k, [])) for k in getattr(mod, 'SHRINK_LISTS', ['ops']))
    info['ops_after'] = sum(len(mplan.get(k, [])) for k in getattr(mod, 'SHRINK_LISTS', ['ops']))
    info['preemptions_before'] = len(explicit.get('pre', []))
    info['preemptions_after'] = len(mexp.get('pre', []))
    digest = final.get('digest')
    detail = [x for x in final.get('violations', []) if x['sig'] == v['sig']][0]['detail']
  else:
    digest = res.get('digest')
    detail = v['detail']
  doc = {'property': mod.PROP, 'tier': tier, 'seed': seed, 'sig': v['sig'], 'detail': detail,
         'digest': digest, 'cfg': cfg, 'plan': mplan, 'choices': mexp, 'info': info,
         'original': {'plan': plan, 'choices': explicit, 'digest': res.get('digest')}}
  info['detail_minimised'] = detail
  with open(path, 'w') as f:
    f.write(jdump(doc))
  return path, info


# ---------------------------------------------------------------------------
# main driver
# ---------------------------------------------------------------------------
def drive(mod, tier, base_seed, groups, runs_per_group, budget_s, opts=None):
  """Run `groups` configuration groups x runs_per_group runs on NPROC
  processes.  Returns the merged result."""
  opts = opts or {}
  t0 = time.time()
  pending = list(range(groups))
  live = {}
  merged = {'runs': 0, 'nontrivial': 0, 'digests': set(), 'nt_digests': set(), 'probes': {},
            'faults': {}, 'violations': [], 'harness_errors': [], 'sim_seconds': 0.0, 'steps': 0,
            'sigs': set(), 'samples': [], 'notes': [], 'groups': 0, 'cfgs': set(), 'ends': {},
            'skipped_groups': 0, 'collected': []}

  def launch(gi):
    rfd, wfd = os.pipe()
    sys.stdout.flush()
    pid = os.fork()
    if pid == 0:
      os.close(rfd)
      for fd in list(live):
        try:
          os.close(fd)
        except OSError:
          pass
      code = 0
      try:
        from . import boot
        res = booter(mod, tier, base_seed, gi, runs_per_group, opts)
        boot.cleanup_scratch()
        data = jdump(res).encode()
        off = 0
        while off < len(data):
          off += os.write(wfd, data[off:off + 65536])
      except BaseException:
        code = 3
        try:
          os.write(wfd, jdump({'harness_errors': [traceback.format_exc()], 'runs': 0}).encode())
        except OSError:
          pass
      os._exit(code)
    os.close(wfd)
    live[rfd] = {'pid': pid, 'buf': b'', 'gi': gi, 't': time.time()}

  def absorb(g):
    merged['groups'] += 1
    merged['runs'] += g.get('runs', 0)
    merged['nontrivial'] += g.get('nontrivial', 0)
    merged['digests'].update(g.get('digests', []))
    merged['nt_digests'].update(g.get('nt_digests', []))
    merged['sim_seconds'] += g.get('sim_seconds', 0.0)
    merged['steps'] += g.get('steps', 0)
    merged['sigs'].update(g.get('sigs', []))
    if g.get('cfg_sig'):
      merged['cfgs'].add(g['cfg_sig'])
    for k, v in g.get('probes', {}).items():
      merged['probes'][k] = merged['probes'].get(k, 0) + v
    for k, v in g.get('faults', {}).items():
      merged['faults'][k] = merged['faults'].get(k, 0) + v
    for k, v in g.get('ends', {}).items():
      merged['ends'][k] = merged['ends'].get(k, 0) + v
    merged['violations'].extend(g.get('violations', []))
    merged['harness_errors'].extend(g.get('harness_errors', []))
    merged['collected'].extend(g.get('collected', []))
    merged['enumerated'] = merged.get('enumerated', 0) + g.get('enumerated', 0)
    for s in g.get('samples', []):
      if len(merged['samples']) < 4:
        merged['samples'].append(s)
    for n in g.get('notes', []):
      if len(merged['notes']) < 8:
        merged['notes'].append(n)

  while pending or live:
    while pending and len(live) < NPROC:
      if budget_s and time.time() - t0 > budget_s:
        merged['skipped_groups'] += len(pending)
        pending = []
        break
      launch(pending.pop(0))
    if not live:
      break
    r, _, _ = select.select(list(live), [], [], 1.0)
    for fd in r:
      chunk = os.read(fd, 1 << 20)
      if chunk:
        live[fd]['buf'] += chunk
        continue
      info = live.pop(fd)
      os.close(fd)
      os.waitpid(info['pid'], 0)
      try:
        absorb(json.loads(info['buf'].decode()))
      except ValueError:
        merged['harness_errors'].append('group %d: booter died or was killed after %.0fs (%d bytes of output)' % (
          info['gi'], time.time() - info['t'], len(info['buf'])))
    hard = (budget_s or 600) * 4 + 120
    for fd, info in list(live.items()):
      if time.time() - info['t'] > hard:
        try:
          os.kill(info['pid'], signal.SIGKILL)
        except OSError:
          pass
  merged['wall_s'] = time.time() - t0
  return merged
