"""Boot a real carbon daemon under the simulator.

boot(cfg) writes the configuration files into a scratch GRAPHITE_ROOT, installs
the SimReactor, imports carbon afresh from the tree under test, runs the real
option parser (Carbon*Options.postOptions) and service.create*Service(), and
starts the application.  Module-attribute seams (time, threading, random) are
installed after `import carbon.*` and before service assembly, because the
MetricCache singleton and its lock are created during assembly.
"""
import io
import os
import sys
import shutil
import tempfile
import contextlib

REPO = os.environ.get('VERIF_REPO', '/repo')


def repo_lib():
  return os.path.join(REPO, 'lib')


class World(object):
  """Handle on a booted daemon."""
  pass


_scratch = None


def scratch_root():
  global _scratch
  if _scratch is None:
    _scratch = tempfile.mkdtemp(prefix='carbonsim-')
    os.makedirs(os.path.join(_scratch, 'conf'))
    os.makedirs(os.path.join(_scratch, 'storage'))
  return _scratch


def cleanup_scratch():
  global _scratch
  if _scratch is not None:
    shutil.rmtree(_scratch, ignore_errors=True)
    _scratch = None


DEFAULT_FILES = {
  'storage-schemas.conf': "[default]\npattern = .*\nretentions = 60:1440\n",
}

SECTION = {'cache': 'cache', 'relay': 'relay', 'aggregator': 'aggregator'}

BASE_SETTINGS = {
  'DATABASE': 'simdb',
  'LINE_RECEIVER_PORT': 0, 'PICKLE_RECEIVER_PORT': 0, 'UDP_RECEIVER_PORT': 0,
  'ENABLE_UDP_LISTENER': False,
  'CARBON_METRIC_INTERVAL': 0,
  'ENABLE_TAGS': False,
  'LOG_UPDATES': False, 'LOG_CREATES': False, 'LOG_CACHE_HITS': False,
  'LOG_CACHE_QUEUE_SORTS': False, 'LOG_LISTENER_CONN_SUCCESS': False,
  'LOG_AGGREGATOR_MISSES': False,
  'ENABLE_LOGROTATION': False,
}


def fmt_setting(v):
  if isinstance(v, bool):
    return 'True' if v else 'False'
  if isinstance(v, float) and v == float('inf'):
    return 'inf'
  if isinstance(v, (list, tuple)):
    return ', '.join(str(x) for x in v)
  return str(v)


def write_conf(cfg, mtime=900000):
  """(Re)write every configuration file of cfg with deterministic mtimes."""
  root = scratch_root()
  conf = os.path.join(root, 'conf')
  for name in os.listdir(conf):
    os.unlink(os.path.join(conf, name))
  settings = dict(BASE_SETTINGS)
  settings.update(cfg.get('settings', {}))
  settings.pop('deep_backlog', None)        # generator-internal marker, not a carbon setting
  section = SECTION[cfg['daemon']]
  decoys = cfg.get('instance_decoys') or {}
  lines = ['[%s]' % section]
  for k in sorted(settings):
    lines.append('%s = %s' % (k, fmt_setting(decoys.get(k, settings[k]))))
  if decoys:
    # the daemon runs as instance "a" (the default): its section overrides the program's
    lines.append('')
    lines.append('[%s:a]' % section)
    for k in sorted(decoys):
      lines.append('%s = %s' % (k, fmt_setting(settings[k])))
  files = dict(DEFAULT_FILES)
  files.update(cfg.get('files', {}))
  files['carbon.conf'] = '\n'.join(lines) + '\n'
  for name, text in files.items():
    if text is None:
      continue
    write_file(name, text, mtime)
  return root


def write_file(name, text, mtime):
  p = os.path.join(scratch_root(), 'conf', name)
  if text is None:
    if os.path.exists(p):
      os.unlink(p)
    return p
  with open(p, 'w', encoding='utf-8') as f:
    f.write(text)
  os.utime(p, (mtime, mtime))
  return p


def purge_carbon():
  for m in [m for m in sys.modules if m == 'carbon' or m.startswith('carbon.')]:
    del sys.modules[m]


class _Parent(dict):
  subCommand = None


def boot(cfg, use_threads=False, ctx=None):
  """Returns a World with: reactor, sched (or None), carbon modules, root service."""
  from . import reactor as simreactor
  from . import sched as simsched
  w = World()
  w.cfg = cfg
  root = write_conf(cfg)
  os.environ['GRAPHITE_ROOT'] = root
  os.environ.pop('GRAPHITE_CONF_DIR', None)
  os.environ.pop('GRAPHITE_STORAGE_DIR', None)
  sys.modules['txamqp'] = None          # py2-only module: take service.py's ImportError path
  lib = repo_lib()
  if sys.path[0] != lib:
    sys.path.insert(0, lib)
  purge_carbon()

  r = simreactor.install(cfg.get('t0'))
  w.reactor = r
  from twisted.python import log as txlog
  if not getattr(txlog, '_sim_logging_started', False):
    txlog._sim_logging_started = True
    txlog.startLoggingWithObserver(lambda e: None, setStdout=False)

  import twisted.internet.protocol as tip
  import random as _random
  w.tip = tip
  tip.random = _random.Random(0)    # reconnect back-off jitter (worlds may re-seed it per plan)

  from carbon.database import TimeSeriesDatabase
  from . import simdb as simdb_mod
  w.SimDB = simdb_mod.make_simdb(TimeSeriesDatabase)

  from carbon import conf
  daemon = cfg['daemon']
  optcls = {'cache': conf.CarbonCacheOptions, 'relay': conf.CarbonRelayOptions,
            'aggregator': conf.CarbonAggregatorOptions}[daemon]
  opts = optcls()
  parent = _Parent(pidfile='twistd.pid', umask=None, nodaemon=True)
  parent.subCommand = 'carbon-' + daemon
  opts.parent = parent
  with contextlib.redirect_stdout(io.StringIO()):
    opts.parseOptions(['--debug', 'start'])
  w.opts = opts

  from carbon import state, events, instrumentation
  import carbon.util as cutil
  import carbon.protocols as cprotocols
  import carbon.cache as ccache
  w.state, w.events, w.instrumentation = state, events, instrumentation
  w.settings = conf.settings
  w.util, w.protocols, w.cache_mod = cutil, cprotocols, ccache
  w.db = state.database

  # instrumentation reads real CPU / memory: stub
  instrumentation.getCpuUsage = lambda: 0.0
  instrumentation.getMemUsage = lambda: 0
  instrumentation.HOSTNAME = 'simhost'

  # ---- seams: time / threading / random ------------------------------------
  if use_threads:
    w.sched = simsched.Sched(ctx)
    clock = w.sched
  else:
    w.sched = None
    clock = r.clock
  w.clock = clock
  r.attach(clock, ctx)
  st = simsched.SimTime(clock) if use_threads else _PlainTime(clock)
  w.simtime = st
  ccache.time = st
  cprotocols.time = st
  instrumentation.time = st
  cutil.time = st.time
  cutil.sleep = st.sleep
  if use_threads:
    w.threading_shim = simsched.ThreadingShim(w.sched)
    ccache.threading = w.threading_shim
    if hasattr(instrumentation, 'stats_lock'):
      # a real lock held by a parked simulated thread would block the thread that holds
      # the baton for good: the counters' lock becomes a SimLock as well
      instrumentation.threading = w.threading_shim
      instrumentation.stats_lock = w.threading_shim.Lock()

  from carbon import service
  w.service_mod = service
  maker = {'cache': service.createCacheService, 'relay': service.createRelayService,
           'aggregator': service.createAggregatorService}[daemon]
  if daemon in ('relay', 'aggregator'):
    import carbon.client as cclient
    cclient.time = st.time
    w.client_mod = cclient
    # CarbonClientManager.getFactories() returns a *set* of factory objects whose
    # iteration order would otherwise follow their memory addresses: pin it with an
    # address- and PYTHONHASHSEED-independent hash (equality stays identity)
    import zlib
    cclient.CarbonClientFactory.__hash__ = \
        lambda self: zlib.crc32(repr(self.destination).encode('utf-8'))
    cclient.FakeClientFactory.__hash__ = lambda self: 0
  if daemon in ('aggregator', 'relay'):
    import carbon.aggregator.rules as crules
    w.rules_mod = crules
    _TTL = crules.TTLCache
    w.ttl_timer = _Timer(st.time)      # worlds may swap the function behind it per run
    crules.TTLCache = lambda size, ttl: _TTL(size, ttl, timer=w.ttl_timer)
  if daemon == 'aggregator':
    import carbon.aggregator.buffers as cbuffers
    cbuffers.time = st
    w.buffers_mod = cbuffers
  w.root = maker(opts)
  if daemon == 'cache':
    import carbon.writer as cwriter
    cwriter.time = st
    w.writer_mod = cwriter
  from twisted.application import app, service as tsvc
  application = tsvc.Application('carbon-' + daemon)
  w.root.setServiceParent(application)
  w.application = application
  with contextlib.redirect_stdout(io.StringIO()):
    app.startApplication(application, False)
  r.startRunning()
  return w


class _Timer(object):
  def __init__(self, fn):
    self.fn = fn

  def __call__(self):
    return self.fn()


class _PlainTime(object):
  """time module seam of the thread-less worlds.  time() is the wall clock: the reactor's
  (monotonic) clock plus an offset that a run may step forwards or backwards."""

  def __init__(self, clock):
    self._c = clock
    self.offset = 0.0

  def time(self):
    return self._c.now + self.offset

  def sleep(self, d):
    if d < 0:
      raise ValueError('sleep length must be non-negative')
    self._c.sleep_until(self._c.now + d)

  def monotonic(self):
    return self._c.now

  def __getattr__(self, name):
    import time as _t
    return getattr(_t, name)
