"""SimReactor / SimNet: the Twisted reactor stand-in.

Installed with installReactor() before carbon is imported.  Time comes from
the scheduler's virtual clock.  Delayed calls are real twisted DelayedCall
objects; when several are due at the same instant the run's Choices decide
the order.  Network objects reproduce the semantics of
twisted.internet.abstract.FileDescriptor that carbon depends on (write buffer
high-water mark -> pauseProducing, resume when drained, loseConnection =
flush then close, writes after close discarded).
"""
import itertools

from twisted.internet import error, address
from twisted.internet.base import DelayedCall, _ThreePhaseEvent, BaseConnector
from twisted.python.failure import Failure
from twisted.python import log as txlog


class SimTransport(object):
  """One end of a simulated TCP connection (ITransport/IConsumer/IPushProducer)."""
  bufferSize = 65536

  def __init__(self, reactor, peer=('10.9.9.9', 40000), host=('127.0.0.1', 2003),
               on_close=None, label='conn'):
    self.reactor = reactor
    self._peer, self._host = peer, host
    self.label = label
    self.protocol = None
    self.connected = True
    self.disconnecting = False
    self.disconnected = False
    self.outbuf = bytearray()      # written by the protocol, not yet read by the peer
    self.delivered = bytearray()   # bytes the peer has read
    self.total_written = 0
    self.producer = None
    self.streaming = False
    self.producerPaused = False
    self.reading = True            # False after pauseProducing() on the read side
    self.peer_eager = True         # peer reads everything at once
    self.on_close = on_close
    self.close_reason = None
    self.closed_by = None
    self.on_write = None
    self.npause = 0
    self.close_delay = 0.0         # virtual seconds between loseConnection() and connectionLost
    self._close_scheduled = False

  # -- ITransport -------------------------------------------------------------
  def write(self, data):
    if not isinstance(data, (bytes, bytearray)):
      raise TypeError("Data must be bytes")
    if self.disconnected or not data:
      return
    self.outbuf += data
    self.total_written += len(data)
    if self.on_write:
      self.on_write(self, bytes(data))
    if self.peer_eager:
      self.peer_read()
    else:
      self._maybe_pause_producer()

  def writeSequence(self, seq):
    for d in seq:
      self.write(d)

  def _maybe_pause_producer(self):
    if (self.producer is not None and self.streaming and not self.producerPaused
        and len(self.outbuf) > self.bufferSize):
      self.producerPaused = True
      self.npause += 1
      self.producer.pauseProducing()

  def peer_read(self, n=None):
    """The peer reads n (default all) buffered bytes."""
    if self.disconnected:
      return b''
    if n is None or n >= len(self.outbuf):
      chunk = bytes(self.outbuf)
      del self.outbuf[:]
    else:
      chunk = bytes(self.outbuf[:n])
      del self.outbuf[:n]
    self.delivered += chunk
    if not self.outbuf:
      if self.producer is not None and (not self.streaming or self.producerPaused):
        self.producerPaused = False
        self.producer.resumeProducing()
      elif self.disconnecting and not self._close_scheduled:
        self._close_scheduled = True
        self.reactor.callLater(self.close_delay, self._close, error.ConnectionDone(), 'local')
    return chunk

  def loseConnection(self):
    if self.disconnected or self.disconnecting:
      return
    self.disconnecting = True
    if not self.outbuf and self.producer is None:
      # twisted closes from the reactor loop, not re-entrantly
      self.reactor.callLater(self.close_delay, self._close, error.ConnectionDone(), 'local')

  def abortConnection(self):
    if self.disconnected:
      return
    self.disconnecting = True
    self.reactor.callLater(0, self._close, error.ConnectionAborted(), 'local')

  def _close(self, exc, by):
    if self.disconnected:
      return
    self.disconnected = True
    self.connected = False
    self.close_reason = exc
    self.closed_by = by
    if self.producer is not None and by != 'local':
      p, self.producer = self.producer, None
      try:
        p.stopProducing()
      except Exception:
        txlog.err()
    if self.on_close:
      self.on_close(self, Failure(exc))

  def peer_reset(self):
    """The peer resets the connection: unread data is lost."""
    self._close(error.ConnectionLost(), 'peer')

  def peer_close(self):
    self._close(error.ConnectionDone(), 'peer')

  def getPeer(self):
    return address.IPv4Address('TCP', self._peer[0], self._peer[1])

  def getHost(self):
    return address.IPv4Address('TCP', self._host[0], self._host[1])

  # -- IConsumer --------------------------------------------------------------
  def registerProducer(self, producer, streaming):
    if self.producer is not None:
      raise RuntimeError("Cannot register producer %s, because producer %s was never "
                         "unregistered." % (producer, self.producer))
    if self.disconnected:
      producer.stopProducing()
      return
    self.producer = producer
    self.streaming = streaming
    if not streaming:
      producer.resumeProducing()

  def unregisterProducer(self):
    self.producer = None
    self.producerPaused = False
    if self.disconnecting and not self.outbuf and not self.disconnected:
      self.reactor.callLater(self.close_delay, self._close, error.ConnectionDone(), 'local')

  # -- IPushProducer (read side) -------------------------------------------------
  def pauseProducing(self):
    self.reading = False

  def resumeProducing(self):
    if not self.disconnected:
      self.reading = True

  def stopProducing(self):
    self.loseConnection()


class _PendingClient(object):
  """What BaseConnector holds while a connect is in flight."""

  def __init__(self, connector):
    self.connector = connector
    self.done = False

  def failIfNotConnected(self, err):
    if self.done:
      return
    self.done = True
    c = self.connector
    c.reactor.pending_connects = [x for x in c.reactor.pending_connects if x is not c]
    c.connectionFailed(Failure(err))

  def loseConnection(self):
    self.failIfNotConnected(error.UserError())


class SimConnector(BaseConnector):
  def __init__(self, host, port, factory, timeout, reactor):
    self.host, self.port = host, port
    BaseConnector.__init__(self, factory, timeout, reactor)
    self.proto = None
    self.conn = None
    self.pending = None
    self.nconnects = 0

  def _makeTransport(self):
    self.pending = _PendingClient(self)
    self.nconnects += 1
    self.reactor.pending_connects.append(self)
    self.reactor.ctxlog('connect-start', self.host, self.port)
    return self.pending

  def getDestination(self):
    return address.IPv4Address('TCP', self.host, self.port)

  # driven by the harness ----------------------------------------------------
  def succeed(self, **kw):
    if self.state != 'connecting' or self.pending is None or self.pending.done:
      return None
    self.pending.done = True
    self.reactor.pending_connects = [x for x in self.reactor.pending_connects if x is not self]
    proto = self.buildProtocol(self.getDestination())
    if proto is None:
      self.connectionFailed(Failure(error.UserError()))
      return None
    t = SimTransport(self.reactor, peer=(self.host, self.port), host=('127.0.0.1', 50000),
                     on_close=self._closed, label='out:%s:%d' % (self.host, self.port), **kw)
    t.protocol = proto
    self.transport = t
    self.conn = t
    self.proto = proto
    self.reactor.out_transports.append(t)
    self.reactor.ctxlog('connect-ok', self.host, self.port)
    if self.reactor.on_out_connect:
      self.reactor.on_out_connect(self, t)
    proto.makeConnection(t)
    return t

  def refuse(self, exc=None):
    if self.pending is not None and not self.pending.done:
      self.reactor.ctxlog('connect-refused', self.host, self.port)
      self.pending.failIfNotConnected(exc or error.ConnectionRefusedError())

  def _closed(self, transport, reason):
    proto, self.proto = self.proto, None
    self.reactor.ctxlog('conn-closed', self.host, self.port, reason.type.__name__)
    if proto is not None:
      try:
        proto.connectionLost(reason)
      except Exception:
        txlog.err()
        self.reactor.escaped('connectionLost')
    self.connectionLost(reason)


class SimPort(object):
  paused = False

  def __init__(self, reactor, port, factory, interface=''):
    self.reactor, self.port, self.factory, self.interface = reactor, port, factory, interface
    self.listening = True

  def stopListening(self):
    self.listening = False

  def getHost(self):
    return address.IPv4Address('TCP', self.interface or '0.0.0.0', self.port)

  def pauseProducing(self):
    self.paused = True

  def resumeProducing(self):
    self.paused = False


class _Clock(object):
  """Virtual clock for worlds without a thread scheduler."""

  def __init__(self, t0=1000000.0):
    self.now = t0

  def sleep_until(self, t):
    if t > self.now:
      self.now = t


class SimReactor(object):
  """The reactor carbon sees."""

  def __init__(self):
    self.clock = _Clock()
    self.ctx = None
    self.calls = []
    self._seq = itertools.count()
    self.triggers = {}
    self.running = False
    self._started = False
    self._stopped = False
    self.threads = []            # (fn, args, kw) from callInThread
    self.from_thread = []
    self.ports = []
    self.pending_connects = []
    self.connectors = []
    self.out_transports = []
    self.in_transports = []
    self.on_out_connect = None
    self.escaped_errors = []
    self.call_errors = 0
    self.thread_joiner = None    # callable: block until pool threads exit
    self.shutdown_gaps = False   # plan knob: stalls between shutdown triggers
    self._pool_trigger = False
    # a real reactor registers crash() and disconnectAll() as 'during shutdown'
    # triggers when it is constructed, i.e. ahead of anything the application adds
    # to that phase; the thread pool adds its own stop when it is first used
    self.addSystemEventTrigger('during', 'shutdown', self._crash)
    self.addSystemEventTrigger('during', 'shutdown', self.disconnectAll)
    self.waker = None            # callable: wake the reactor thread (callFromThread)

  # ---- plumbing --------------------------------------------------------------
  def attach(self, clock, ctx):
    self.clock = clock
    self.ctx = ctx

  def ctxlog(self, *ev):
    if self.ctx is not None:
      self.ctx.log.add(*ev)

  def escaped(self, where):
    self.escaped_errors.append(where)

  # ---- IReactorTime -----------------------------------------------------------
  def seconds(self):
    return self.clock.now

  def callLater(self, delay, f, *a, **kw):
    assert callable(f)
    if delay < 0:
      raise ValueError("delay must be >= 0")
    dc = DelayedCall(self.seconds() + delay, f, a, kw, self._cancel, self._reset, self.seconds)
    dc._sim_seq = next(self._seq)
    self.calls.append(dc)
    return dc

  def _cancel(self, dc):
    try:
      self.calls.remove(dc)
    except ValueError:
      pass

  def _reset(self, dc):
    pass

  def getDelayedCalls(self):
    return list(self.calls)

  def next_due(self):
    if not self.calls:
      return None
    return min(c.getTime() for c in self.calls)

  def run_due(self):
    """Run every delayed call due at or before now (and queued callFromThread
    functions).  Ties at one instant are ordered by the run's Choices."""
    n = 0
    while True:
      while self.from_thread:
        f, a, kw = self.from_thread.pop(0)
        self._call(f, a, kw)
      now = self.clock.now
      due = [c for c in self.calls if c.getTime() <= now]
      if not due:
        break
      tmin = min(c.getTime() for c in due)
      ties = sorted((c for c in due if c.getTime() == tmin), key=lambda c: c._sim_seq)
      c = ties[self.ctx.ch.pick('tie', len(ties)) if self.ctx is not None else 0]
      if len(ties) > 1 and self.ctx is not None:
        self.ctx.probe('timer_tie')
      self.calls.remove(c)
      c.activate_delay() if c.delayed_time else None
      if c.getTime() > now:      # was delayed past now
        self.calls.append(c)
        continue
      c.called = 1
      n += 1
      self._call(c.func, c.args, c.kw)
      if n > 100000:
        raise RuntimeError('timer storm')
    return n

  def _call(self, f, a, kw):
    try:
      f(*a, **kw)
    except Exception:
      self.call_errors += 1
      txlog.err()

  def advance_to(self, t):
    """Single-thread worlds: run the event loop up to virtual time t."""
    while True:
      self.run_due()
      nd = self.next_due()
      if nd is None or nd > t:
        break
      self.clock.sleep_until(nd)
    if t > self.clock.now:
      self.clock.sleep_until(t)
    self.run_due()

  def advance(self, d):
    self.advance_to(self.clock.now + d)

  # ---- IReactorThreads ----------------------------------------------------------
  def callInThread(self, f, *a, **kw):
    if not self._pool_trigger:
      self._pool_trigger = True
      self.addSystemEventTrigger('during', 'shutdown', self._join_threads)
    self.threads.append((f, a, kw))

  def callFromThread(self, f, *a, **kw):
    self.from_thread.append((f, a, kw))
    self.ctxlog('callFromThread')
    if self.waker:
      self.waker()

  def suggestThreadPoolSize(self, n):
    pass

  # ---- IReactorCore ----------------------------------------------------------------
  def addSystemEventTrigger(self, phase, ev, f, *a, **kw):
    self.triggers.setdefault(ev, _ThreePhaseEvent())
    if ev == 'shutdown':
      real = f

      def f(*a2, **kw2):
        self.trigger_gap()
        return real(*a2, **kw2)
    return (ev, self.triggers[ev].addTrigger(phase, f, *a, **kw))

  def trigger_gap(self):
    """Between two shutdown triggers the reactor thread may be descheduled for as long as it
    takes another simulated thread to come out of its sleep (worlds with a thread scheduler,
    plans that ask for it): the other thread then runs in the middle of the shutdown sequence."""
    sched = self.clock
    if not self.shutdown_gaps or not hasattr(sched, 'th') or self.ctx is None or sched.cur != 'R':
      return
    wakes = [t.wake for n, t in sched.th.items() if n != 'R' and t.alive and t.wake is not None]
    if not wakes or self.ctx.ch.pick('trgap', 2) != 1:
      return
    self.ctx.fault('reactor_descheduled_between_shutdown_triggers')
    sched.sleep_until(min(wakes))

  def removeSystemEventTrigger(self, tid):
    ev, handle = tid
    self.triggers[ev].removeTrigger(handle)

  def callWhenRunning(self, f, *a, **kw):
    if self._started:
      f(*a, **kw)
      return None
    return self.addSystemEventTrigger('after', 'startup', f, *a, **kw)

  def fireSystemEvent(self, ev):
    e = self.triggers.get(ev)
    if e is not None:
      e.fireEvent()

  def startRunning(self):
    self._started = True
    self.running = True
    self.fireSystemEvent('startup')

  def stop(self):
    """reactor.stop(): 'before shutdown' triggers (in registration order), then
    the 'during' phase in the order a real reactor registers it: crash()
    (running = False), disconnectAll(), thread pool stop (join)."""
    if self._stopped:
      raise error.ReactorNotRunning("Can't stop reactor that isn't running.")
    self._stopped = True
    self.ctxlog('reactor-stop')
    e = self.triggers.setdefault('shutdown', _ThreePhaseEvent())
    e.fireEvent()

  def _crash(self):
    self.running = False
    self._started = False

  def _join_threads(self):
    if self.thread_joiner:
      self.thread_joiner()

  def disconnectAll(self):
    for t in list(self.in_transports) + list(self.out_transports):
      if not t.disconnected:
        t._close(error.ConnectionLost('reactor shutdown'), 'shutdown')

  # ---- IReactorTCP / UDP --------------------------------------------------------------
  def listenTCP(self, port, factory, backlog=50, interface=''):
    p = SimPort(self, port, factory, interface)
    factory.doStart()
    self.ports.append(p)
    return p

  def listenUDP(self, port, protocol, interface='', maxPacketSize=8192):
    p = SimPort(self, port, protocol, interface)
    self.ports.append(p)
    return p

  def connectTCP(self, host, port, factory, timeout=30, bindAddress=None):
    c = SimConnector(host, port, factory, timeout, self)
    self.connectors.append(c)
    c.connect()
    return c

  def accept(self, factory_or_protocol, peer=('10.9.9.9', 40000), host=('127.0.0.1', 2003),
             label='in'):
    """A client connects to a listening factory: build the protocol and wire a
    SimTransport to it.  Returns the transport (protocol in .protocol)."""
    if hasattr(factory_or_protocol, 'buildProtocol'):
      proto = factory_or_protocol.buildProtocol(address.IPv4Address('TCP', *peer))
      if proto is None:
        return None
    else:
      proto = factory_or_protocol

    def closed(tr, reason):
      try:
        proto.connectionLost(reason)
      except Exception:
        txlog.err()
        self.escaped('connectionLost')

    t = SimTransport(self, peer=peer, host=host, on_close=closed, label=label)
    t.protocol = proto
    self.in_transports.append(t)
    proto.makeConnection(t)
    return t

  def deliver(self, transport, data):
    """Deliver bytes to a server-side protocol exactly as twisted's
    _doReadOrWrite would: an exception escaping dataReceived is logged and the
    connection is closed.  Returns False if an exception escaped."""
    if transport.disconnected:
      return True
    try:
      transport.protocol.dataReceived(data)
      return True
    except Exception as e:
      self.escaped('dataReceived:%s' % type(e).__name__)
      txlog.err()
      transport._close(error.ConnectionLost('exception in dataReceived'), 'exception')
      return False


def install(t0=None):
  """Install a fresh SimReactor as *the* twisted reactor."""
  import sys
  import twisted.internet
  r = SimReactor()
  if t0 is not None:
    r.clock.now = t0          # the daemon is started at a wall-clock instant of the config's choosing
  sys.modules.pop('twisted.internet.reactor', None)
  from twisted.internet.main import installReactor
  installReactor(r)
  twisted.internet.reactor = r
  return r
