#!/venv/bin/python
"""Debug helper: execute a replay file and dump the tail of its event log."""
import os, sys, json
if os.environ.get('PYTHONHASHSEED') != '0':
  os.environ['PYTHONHASHSEED'] = '0'; os.execv(sys.executable, [sys.executable] + sys.argv)
sys.path.insert(0, '/verif')
from sim import runner, core, cli
doc = json.load(open(sys.argv[1]))
mod = cli.load_prop(doc['property'])
which = 'original' if len(sys.argv) > 2 and sys.argv[2] == 'orig' else None
plan = doc['original']['plan'] if which else doc['plan']
ch = doc['original']['choices'] if which else doc['choices']
w = mod.boot(doc['cfg'])
core.EventLog.__init__.__defaults__ = (100000,)
orig_result = core.RunCtx.result
def result(self, extra=None):
  r = orig_result(self, extra); r['log'] = self.log.tail; return r
core.RunCtx.result = result
res = runner.run_child(w, mod, plan, {'explicit': ch})
if 'harness_error' in res: print(res['harness_error']); sys.exit(2)
for l in res['log'][-int(os.environ.get('TAIL', '80')):]: print(l)
print([v['sig'] + ' :: ' + v['detail'] for v in res['violations']])
