#!/bin/bash
# tools/eval_mutant.sh <PROP> <diff> <demo.py> [extra check args]
# Applies a seeded change to a scratch worktree of /repo HEAD, verifies the test
# suite result is unchanged and the demo fails/passes, then runs the property's
# quick check against it (VERIF_REPO).  Scratch worktree removed afterwards.
set -u
PROP=$1; DIFF=$(readlink -f "$2"); DEMO=$(readlink -f "$3"); shift 3
WT=$(mktemp -d /tmp/evalwt.XXXXXX); rmdir "$WT"
git -C /repo worktree add -q "$WT" HEAD || exit 2
cleanup() { git -C /repo worktree remove --force "$WT" >/dev/null 2>&1; }
trap cleanup EXIT
cd "$WT"
BASE_DEMO=$(PYTHONPATH=$WT/lib timeout 120 /venv/bin/python "$DEMO" "$WT" >/dev/null 2>&1; echo $?)
if ! git apply "$DIFF" 2>/dev/null; then echo "RESULT $PROP apply-failed"; exit 2; fi
TESTS=$(PYTHONPATH=$WT/lib timeout 600 /venv/bin/python -m pytest -q -p no:cacheprovider --timeout=900 --continue-on-collection-errors 2>&1 | tail -1)
MUT_DEMO=$(PYTHONPATH=$WT/lib timeout 120 /venv/bin/python "$DEMO" "$WT" >/dev/null 2>&1; echo $?)
cd /verif
OUT=$(VERIF_REPO=$WT timeout 900 ./check "$PROP" "$@" 2>&1)
RC=$?
SIGS=$(echo "$OUT" | grep -A1 '^VIOLATION' | grep 'sig=' | sed 's/ seed=.*//' | tr '\n' ' ')
echo "RESULT $PROP diff=$(basename $DIFF) tests=[$TESTS] demo_base=$BASE_DEMO demo_mut=$MUT_DEMO check_rc=$RC $SIGS"
echo "$OUT" | grep -A2 '^VIOLATION\|HARNESS' | head -12
