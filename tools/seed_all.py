#!/usr/bin/env python3
"""Re-evaluates every seeded change under /tmp/mutwt/<ID>/out and stores the kept
ones as /verif/seeded/<ID>-mN/{patch.diff,demo.py,meta.json}."""
import glob, json, os, re, shutil, subprocess, sys
ROOT = '/verif'
only = sys.argv[1:]
rows = []
for diff in sorted(glob.glob('/tmp/mutwt/C*/out/m?.diff')):
  pid = diff.split('/')[3]
  n = os.path.basename(diff)[:-5]
  if only and pid not in only and '%s-%s' % (pid, n) not in only:
    continue
  demo = diff[:-5] + '_demo.py'
  meta_in = diff[:-5] + '_meta.json'
  out = subprocess.run([ROOT + '/tools/eval_mutant.sh', pid, diff, demo], capture_output=True, text=True).stdout
  m = re.search(r'RESULT (\S+) diff=\S+ tests=\[(.*?)\] demo_base=(\d+) demo_mut=(\d+) check_rc=(\d+)(.*)', out)
  if not m:
    print('NO RESULT', diff, out[-300:]); continue
  tests, db, dm, rc, sigs = m.group(2), int(m.group(3)), int(m.group(4)), int(m.group(5)), m.group(6)
  sigs = re.findall(r'sig=(\S+)', sigs)
  ok_tests = tests.startswith('2 failed, 179 passed') and '5 errors' in tests
  keep = ok_tests and db == 0 and dm != 0
  try:
    meta = json.load(open(meta_in))
  except Exception:
    meta = {}
  d = os.path.join(ROOT, 'seeded', '%s-%s%s' % (pid, os.environ.get('ROUND', ''), n))
  if keep:
    os.makedirs(d, exist_ok=True)
    shutil.copy(diff, os.path.join(d, 'patch.diff'))
    shutil.copy(demo, os.path.join(d, 'demo.py'))
    meta_out = {
      'property': pid, 'summary': meta.get('summary'), 'needs': meta.get('needs'),
      'author_ran': meta.get('ran'),
      'confirmed': {'test_suite_with_change': tests, 'demo_exit_unchanged_tree': db, 'demo_exit_with_change': dm,
                    'how': 'tools/eval_mutant.sh: scratch worktree of /repo HEAD, git apply, baseline pytest command, '
                           'demo with PYTHONPATH=<tree>/lib, then VERIF_REPO=<tree> ./check %s (quick tier)' % pid},
      'detected_by': {'check': './check %s --tier quick' % pid, 'exit_code': rc, 'violation_signatures': sigs},
    }
    json.dump(meta_out, open(os.path.join(d, 'meta.json'), 'w'), indent=1)
  rows.append((pid, n, keep, rc, sigs))
  print(pid, n, 'KEPT' if keep else 'REJECTED(tests=%s demo=%s/%s)' % (tests, db, dm), 'check_rc=%s' % rc, ' '.join(sigs)[:160], flush=True)
print('kept', sum(1 for r in rows if r[2]), 'of', len(rows), '; detected', sum(1 for r in rows if r[2] and r[3] == 1))
