#!/usr/bin/env python3
"""Regenerates /verif/MANIFEST.json from the table below (kept in one place so
the manifest is always schema-valid and in step with the checks that exist)."""
import json
import os
import subprocess

ROOT = os.path.dirname(os.path.dirname(os.path.abspath(__file__)))

TECH = 'deterministic simulation with fault injection: '

CLAIMED = {
  'C01': dict(
    technique=TECH + 'seeded segmentation / interleaving / pause schedules of client byte streams delivered to the '
    'real listener protocols of a booted carbon-cache; per-chunk oracle against the client\'s own datapoint list',
    text='1..4 line, pickle (protocols 0-5) and UDP clients; every TCP stream is cut at seeded positions (1-byte runs, '
         'inside UTF-8 characters, inside the 4-byte length prefix, coalesced frames), connections interleave, '
         'receivers are paused and resumed mid-stream, datagrams are dropped / duplicated / reordered. After every '
         'delivered chunk the pipeline recorder must hold exactly the datapoints whose frames that chunk completed. '
         'Clients connect lazily, also Python-2-style pickle frames, pauses raised inside a chunk, cache-full signals '
         'without flow control, MAX_RECEIVER_CONNECTIONS with a backlog, idle timeouts, connection-logging settings, '
         'clients ending with a reset, wall-clock steps (time.time() vs the reactor clock); no connection may stay '
         'unread or unaccepted at the end, the UDP listening port must stay open.',
    ref='6 (C01)'),
  'C11': dict(
    technique=TECH + 'malformed frames built by construction interleaved with well-formed ones under the C01 '
    'segmentation schedule; exceptions escaping dataReceived/datagramReceived are caught at the SimNet seam',
    text='Invalid UTF-8, wrong field counts, unparsable and non-finite numbers, truncated / garbage pickles, pickles '
         'of the wrong shape or element types, inert opcode soups, over-length frames; oracle: no exception escapes, '
         'no server-side close except for an over-length frame or a full idle period, recorder equals the well-formed '
         'datapoints; connection limit with late connects, idle timeouts with quiet periods, wall-clock steps, resets.',
    ref='6 (C11), 9.2'),
  'C12': dict(
    technique=TECH + 'list files rewritten / emptied / deleted between datapoints while the 10 s reload timer runs on '
    'the virtual clock; oracle = reference admission function over the list contents as of the last reload performed',
    text='USE_WHITELIST on, generated whitelist/blacklist files (regex sets, empty, comments, uncompilable lines, '
         'missing), MIN_TIMESTAMP_RESOLUTION 0/1/10/60, -1 timestamps, NaN/inf values, same datapoints over line, UDP '
         'and pickle in interleaved segments; recorder and blacklistMatches/whitelistRejects counters must agree. The '
         'reference follows the documented 10 s reload schedule on its own timer; a file-system fault seam makes a list '
         'file vanish between exists() and getmtime(), another saves the file again while the daemon is reading it; '
         'sub-second mtimes with reload ticks inside a second, lists absent at start, malformed traffic in between.',
    ref='6 (C12)'),
  'C02': dict(
    technique=TECH + 'refinement of the real MetricCache against a dict-of-dict reference model stepped in '
    'lock-acquisition order, under seeded line-level interleavings of the receiving and writer threads',
    text='Seeded exploration of store / drain / cache-query histories x thread schedules x six strategies on the '
         'booted carbon-cache (real listener -> pipeline -> cache path, real CacheManagementHandler). After every '
         'critical section the cache contents and size must equal the model; every drain must return the model\'s '
         'batch, every query a value the model held during the query.',
    ref='6 (C02)'),
  'C03': dict(
    technique=TECH + 'real writer loop on a fault-injecting in-memory storage plugin; history oracle matching each '
    'drained batch to exactly one write / counted drop / counted or logged error',
    text='Seeded exploration of workloads x thread schedules x backend fault placements (exists/create/write raise '
         'IOError/ENOSPC/RuntimeError or stall) x rate limits x strategies; the recorded history of drains, backend '
         'calls, counters and logged errors is checked batch by batch; every write is checked against the files '
         'existing at that call; with the daemon\'s own reporting on, reported + pending counters must equal the '
         'backend history (the reporting tick is pre-empted line by line against the writer thread). A share of the seeded runs is additionally re-executed once per single-fault placement '
         '(and a sample of pairs) of its fault-free version.',
    ref='6 (C03)'),
  'C04': dict(
    technique=TECH + 'reactor.stop() (real three-phase trigger sequence) injected at seeded points of the plan and of '
    'the writer loop; oracle: nothing accepted before the stop is left in the cache when the writer thread exits',
    text='Seeded placement of an orderly stop between any two receiver operations and, by schedule, between any two '
         'lines of the writer loop (idle sleep, rate-limit wait, mid-pass), x strategies x MIN_TIMESTAMP_LAG x limits '
         'x MAX_UPDATES_PER_SECOND_ON_SHUTDOWN, with cache queries, clock jumps, a schema file missing at a reload tick and '
         'a shutdown window (connections still delivering while the first shutdown phase waits) in the workload; bounded liveness: '
         'the writer exits within 1 h virtual. A share of the seeded runs is additionally re-executed with the stop '
         'injected at every line the writer thread executes after the last receiver operation (crash-point '
         'enumeration relative to the base run\'s recorded schedule).',
    ref='6 (C04)'),
  'C05': dict(
    technique=TECH + 'routing invariants evaluated on the booted relay after every fault-driven membership change '
    '(connections fail and recover, dynamic router removes / re-adds ring members, stopClient) over ring breakpoints, a '
    'seeded stripe of the 65 536 positions (full sweeps in the thorough tier) and every routed datapoint',
    text='consistent-hashing / fast-hashing / aggregated variants, carbon_ch and fnv1a_ch, 1..8 destinations incl. '
         'several instances per server, RF 1..4, DIVERSE_REPLICAS on/off, DYNAMIC_ROUTER on/off: after each membership '
         'event every tested key gets min(RF, eligible) configured, pairwise distinct (and server-distinct) '
         'destinations, stable across two calls. Positions are reached through a brute-force pre-image table built '
         'with a reference hash.',
    ref='6 (C05)'),
  'C06': dict(
    technique=TECH + 'the relay\'s ring is compared after every membership event of the simulated fault history with '
    'an independent implementation of the published carbon_ch / fnv1a_ch ring replaying the same history, with the '
    'ring before the event, and with a freshly built ring',
    text='Clauses: compatibility with the published algorithm for the same add/remove history; minimal disruption '
         '(preference order before vs after, affected node deleted/inserted); history independence vs a fresh ring '
         '(one known finding: collision bumping); the relay\'s answer vs the published replica selection on a fresh ring; '
         'a destination leaves the ring only after DYNAMIC_ROUTER_MAX_RETRIES attempts in a row failed. Test positions: breakpoints of both rings +-1, seeded stripe, full '
         '65 536 sweeps in a share of thorough runs.',
    ref='6 (C06), 9.7'),
  'C07': dict(
    technique=TECH + 'booted carbon-relay against simulated peers: connect refused / timeout, reset with unread data, '
    'stalled peers (transport back-pressure), flapping, timer-tie order, dynamic-router removal, orderly stop; history '
    'oracle accepted-sequence vs bytes written per destination',
    text='Per destination: written (self-metrics removed) is always a prefix of accepted; each self-metric written at '
         'most once; queue within the hard limit; every discard counted and only at the limit; removal re-routes '
         'queued datapoints (conservation per event); stop closes only after the queue is flushed; bounded liveness '
         'after faults stop; after every event accepted-but-unwritten == queue contents; connection-quality resets, '
         'deep backlogs, reported drop counters; nothing routable stays in the hold-back buffer once a destination is '
         'back. One known finding (fractional hard limit).',
    ref='6 (C07)'),
  'C08': dict(
    technique=TECH + 'aggregation pipeline of a booted carbon-aggregator on the virtual clock: arrivals (late, '
    'duplicate, out-of-order, very old, future-stamped) interleaved with per-series flush ticks, tie order from the '
    'run\'s choices, clock stalls over several periods; oracle = reference lists per series+interval',
    text='Generated rules from the documented pattern language with every method, MAX_AGGREGATION_INTERVALS 1..5, '
         'WRITE_BACK_FREQUENCY, name cache off/LRU/TTL, FORWARD_ALL on/off. Every emission must equal the rule '
         'function over a suffix of the values received for its interval that includes everything since the last '
         'emission (all of them inside the retention horizon); re-emission only on new data; <= MAX+2 buffers after a '
         'flush, all received values covered by an emission after the flush that follows them; idle series and their '
         'timers released; pass-through exactly once (also for raw series named like another rule\'s aggregate); '
         'whole-name matching; rule-file edits under the running daemon; a re-read failing with an I/O error must leave '
         'rules and buffered values alone (judged up to the next attempt).',
    ref='6 (C08)'),
  'C09': dict(
    technique=TECH + 'bounded-liveness oracle at quiescence over seeded interleavings of the storing thread, the '
    'writer thread and receiver connect/disconnect events around the cache watermarks',
    text='Cache side (world B): flow control on, tiny caches, pause/resume cycles with connection churn, hot '
         'pre-emption in events.py / protocols.py; at quiescence a cache really holding fewer datapoints than its low '
         'watermark (reference count, not the cache\'s own counter) must leave no receiver paused. Relay side (world C): 1..4 destinations, all proportions of queue size / watermark / batch '
         'size, hot keys, destinations that never come back; the release condition is evaluated after every event.',
    ref='6 (C09)'),
  'C10': dict(
    technique=TECH + 'bound checked at every lock release and thread switch, refusal signalling checked against the '
    'reference admission rule, under seeded interleavings',
    text='MAX_CACHE_SIZE 1..6, 20, 40, flow control on/off, all strategies: cache.size <= hard limit at every '
         'scheduling point; a refused store fires the overflow signal exactly once and changes neither contents nor '
         'key set; a duplicate timestamp is accepted when full; with instrumentation on, reported + pending '
         'cache.overflow equals the refusals signalled; failing backend writes, refusals inside a shutdown window, '
         'settings split over the program and instance sections of carbon.conf. One known finding (fractional hard limit).',
    ref='6 (C10), 9.8'),
  'C15': dict(
    technique=TECH + 'two-party simulation: the relay\'s real client protocol writes to a simulated connection whose '
    'peer re-segments the bytes into a real listener protocol; connection resets and stalls happen mid-run',
    text='Random 64-bit float patterns, boundary magnitudes, +-inf, -0.0, 64-bit ints, fractional timestamps, unicode '
         'names, batch sizes 1..500, pickle and line protocols: what the downstream listener decodes equals what the '
         'relay accepted (pickle exact; line: int(ts), |dv| <= 5e-11 or 1 ulp); the downstream listener pauses inside a '
         'chunk and resumes later (every complete frame read must be ingested), closes only after a full idle period. '
         'One known finding (double rounding).',
    ref='6 (C15)'),
  'C16': dict(
    technique=TECH + 'generated relay-rules.conf / aggregation-rules.conf loaded by the booted relay; reference '
    'evaluators written from the example files; evaluated on every routed datapoint and on a name-grammar sweep after '
    'each fault-driven membership change',
    text='rules router: first match, continue chain, default last, intersected with the currently configured set; '
         'aggregation-aware routers: every input of an aggregate is routed to the hash destinations of the aggregate '
         'name, unmatched names by their own name; aggregation-rules.conf is edited under the running relay and the '
         'reference follows the documented 10 s reload schedule; the file may be absent at start, vanish, come back, '
         'be emptied; a re-read may fail with an I/O error (then the rule set in force is the old one or a complete '
         'later one, never a prefix); the name cache (LRU / TTL) reads a clock that may jump between two reads.',
    ref='6 (C16)'),
  'C17': dict(
    technique=TECH + 'seeded search over line-level interleavings of the storing and draining threads on the real '
    'MetricCache; oracle = strategy clauses evaluated against the reference cache at the choose point',
    text='Seeded exploration of store/drain histories x thread schedules x six strategies x lag x bounded/unbounded '
         'cache on the real booted carbon-cache; every violation is minimised and replays exactly.',
    ref='6 (C17), 3.3'),
  'C19': dict(
    technique=TECH + 'create path exercised inside the real writer loop with failing creates and schema files rewritten '
    'under the 60 s reload timer; oracle = reference evaluator of the documented schema language',
    text='Generated storage-schemas.conf / storage-aggregation.conf (1..6 sections, overlapping patterns, missing '
         'keys, all unit suffixes) loaded by the real code; every simdb.create() argument tuple must equal the '
         'reference evaluation of a file version in force between the writer\'s previous backend call and the create '
         '(reference versions follow the documented 60 s schedule on the harness\'s own timer; unparseable and '
         'missing files, same-mtime rewrites and older files moved into place are part of the workload).',
    ref='6 (C19)'),
  'C20': dict(
    technique=TECH + 'TokenBucket on the virtual clock driven by seeded acquisition / clock-step / limit-change '
    'histories (refinement against a lazy-refill reference bucket, every grant window checked), plus the writer\'s '
    'real buckets observed through backend call times',
    text='World E: capacities 1..1000, rates 1/60..1000, zero / tiny / huge clock steps, injected oversleep, limit '
         'changes (also from a second simulated thread); every pair of grants is checked against rate*w + 2*burst '
         '(+ new burst per limit change; while a change is in progress on the other thread the larger limits count). '
         'World B: write/create call times of the booted writer, failing creates included, a tighter bound behind '
         'the shutdown change, stop enumeration over the writer\'s lines.',
    ref='6 (C20)'),
}

NOT_APPLICABLE = {
  'C13': 'pure function of the pickle frame bytes and one static setting; no schedule, clock, fault or '
         'second party can change whether a global is resolved -- deciding it is input fuzzing, not '
         'simulation (DESIGN.md section 7)',
  'C14': 'pure function of the metric name and TAG_HASH_FILENAMES; no storage fault or interleaving '
         'alters the computed path, and the whisper/ceres backends that use it are not importable '
         'here (DESIGN.md section 7)',
  'C18': 'TaggedSeries.parse/format is a total stateless function from one string to one string; '
         'nothing for a simulator to schedule or fault (DESIGN.md section 7)',
}

PENDING_REASON = 'check not built yet in this session (claimed in DESIGN.md; will move to checks when its world exists)'

ALL = ['C%02d' % i for i in range(1, 21)]


def main():
  checks = []
  for pid in sorted(CLAIMED):
    c = CLAIMED[pid]
    checks.append({
      'property_id': pid,
      'quick_cmd': './check %s --tier quick' % pid,
      'thorough_cmd': './check %s --tier thorough' % pid,
      'evidence_file': '/verif/evidence/%s.json' % pid,
      'replay_cmd_template': './check replay {path}',
      'engine': 'carbon-dst',
      'level_claimed': {'category': c.get('category', 'exploration'), 'text': c['text'],
                        'design_ref': 'DESIGN.md section ' + c['ref']},
      'level_note': c.get('note', 'Trusted: the simulator (sim/sched.py, sim/reactor.py), the reference models '
                          '(sim/refmodels.py), CPython GIL atomicity of dict/deque operations; pre-emption at '
                          'source-line granularity; storage is the in-memory simdb plugin, not whisper.'),
      'technique': c['technique'],
    })
  na = [{'property_id': p, 'reason': r} for p, r in sorted(NOT_APPLICABLE.items())]
  for p in ALL:
    if p not in CLAIMED and p not in NOT_APPLICABLE:
      na.append({'property_id': p, 'reason': PENDING_REASON})
  na.sort(key=lambda x: x['property_id'])
  m = {
    'version': 1,
    'setup_cmd': './setup.sh',
    'hooks': {
      'guard': 'CARBON_VERIF_SIM',
      'enable': 'no source hook exists in /repo: every seam is a module attribute, the Twisted reactor '
                'installation point or the carbon plugin registry, installed by /verif/sim/boot.py at run '
                'time; CARBON_VERIF_SIM is reserved and unused',
      'baseline_off_cmd': 'cd /repo && /venv/bin/python -m pytest -ra -q -p no:cacheprovider --timeout=900 '
                          '--continue-on-collection-errors',
      'source_commits': [],
      'add_only': True,
    },
    'engines': [{
      'name': 'carbon-dst', 'path': '/verif/sim',
      'serves_properties': sorted(CLAIMED),
      'kind_free_text': 'deterministic simulator for Twisted daemons: SimReactor (virtual clock, choice-ordered '
                        'timers, simulated TCP), ThreadSim (baton-passing real threads pre-empted at line '
                        'events), simdb fault-injecting storage plugin, seeded plans + recorded choices, ddmin '
                        'minimiser, exact replay',
    }],
    'checks': checks,
    'not_applicable': na,
    'notes': 'All checks: ./check <id> [--tier quick|thorough]; VERIF_SEED sets the base seed; VERIF_REPO points '
             'the checks at another tree (used for seeded mutants). Fix commits in /repo are listed in '
             'known_findings.json under "fixed".',
  }
  with open(os.path.join(ROOT, 'MANIFEST.json'), 'w') as f:
    json.dump(m, f, indent=1)
    f.write('\n')
  try:
    subprocess.check_call(['python3-vt', '-c', '''
import json, jsonschema
jsonschema.validate(json.load(open("%s/MANIFEST.json")), json.load(open("/root/.vp/MANIFEST.schema.json")))
print("MANIFEST.json valid")''' % ROOT])
  except Exception as e:
    print('validation skipped/failed:', e)


if __name__ == '__main__':
  main()
