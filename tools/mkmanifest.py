#!/usr/bin/env python3
"""Regenerates /verif/MANIFEST.json from the table below (kept in one place so
the manifest is always schema-valid and in step with the checks that exist)."""
import json
import os
import subprocess

ROOT = os.path.dirname(os.path.dirname(os.path.abspath(__file__)))

TECH = 'deterministic simulation with fault injection: '

CLAIMED = {
  'C17': dict(
    world='B', technique=TECH + 'seeded search over line-level interleavings of the storing and '
    'draining threads on the real MetricCache, oracle = strategy clauses against a reference cache '
    'stepped in lock-acquisition order',
    text='Seeded exploration of store/drain histories x thread schedules x six strategies x lag x '
         'bounded/unbounded cache on the real booted carbon-cache; every violation is minimised and '
         'replays exactly. Evidence over the sampled seeds, not a proof.',
    ref='6 (C17), 3.3'),
}

NOT_APPLICABLE = {
  'C13': 'pure function of the pickle frame bytes and one static setting; no schedule, clock, fault or '
         'second party can change whether a global is resolved -- deciding it is input fuzzing, not '
         'simulation (DESIGN.md section 7)',
  'C14': 'pure function of the metric name and TAG_HASH_FILENAMES; no storage fault or interleaving '
         'alters the computed path, and the whisper/ceres backends that use it are not importable '
         'here (DESIGN.md section 7)',
  'C18': 'TaggedSeries.parse/format is a total stateless function from one string to one string; '
         'nothing for a simulator to schedule or fault (DESIGN.md section 7)',
}

PENDING_REASON = 'check not built yet in this session (claimed in DESIGN.md; will move to checks when its world exists)'

ALL = ['C%02d' % i for i in range(1, 21)]


def main():
  checks = []
  for pid in sorted(CLAIMED):
    c = CLAIMED[pid]
    checks.append({
      'property_id': pid,
      'quick_cmd': './check %s --tier quick' % pid,
      'thorough_cmd': './check %s --tier thorough' % pid,
      'evidence_file': '/verif/evidence/%s.json' % pid,
      'replay_cmd_template': './check replay {path}',
      'engine': 'carbon-dst',
      'level_claimed': {'category': c.get('category', 'exploration'), 'text': c['text'],
                        'design_ref': 'DESIGN.md section ' + c['ref']},
      'level_note': c.get('note', 'Trusted: the simulator (sim/sched.py, sim/reactor.py), the reference models '
                          '(sim/refmodels.py), CPython GIL atomicity of dict/deque operations; pre-emption at '
                          'source-line granularity; storage is the in-memory simdb plugin, not whisper.'),
      'technique': c['technique'],
    })
  na = [{'property_id': p, 'reason': r} for p, r in sorted(NOT_APPLICABLE.items())]
  for p in ALL:
    if p not in CLAIMED and p not in NOT_APPLICABLE:
      na.append({'property_id': p, 'reason': PENDING_REASON})
  na.sort(key=lambda x: x['property_id'])
  m = {
    'version': 1,
    'setup_cmd': './setup.sh',
    'hooks': {
      'guard': 'CARBON_VERIF_SIM',
      'enable': 'no source hook exists in /repo: every seam is a module attribute, the Twisted reactor '
                'installation point or the carbon plugin registry, installed by /verif/sim/boot.py at run '
                'time; CARBON_VERIF_SIM is reserved and unused',
      'baseline_off_cmd': 'cd /repo && /venv/bin/python -m pytest -ra -q -p no:cacheprovider --timeout=900 '
                          '--continue-on-collection-errors',
      'source_commits': [],
      'add_only': True,
    },
    'engines': [{
      'name': 'carbon-dst', 'path': '/verif/sim',
      'serves_properties': sorted(CLAIMED),
      'kind_free_text': 'deterministic simulator for Twisted daemons: SimReactor (virtual clock, choice-ordered '
                        'timers, simulated TCP), ThreadSim (baton-passing real threads pre-empted at line '
                        'events), simdb fault-injecting storage plugin, seeded plans + recorded choices, ddmin '
                        'minimiser, exact replay',
    }],
    'checks': checks,
    'not_applicable': na,
    'notes': 'All checks: ./check <id> [--tier quick|thorough]; VERIF_SEED sets the base seed; VERIF_REPO points '
             'the checks at another tree (used for seeded mutants). Fix commits in /repo are listed in '
             'known_findings.json under "fixed".',
  }
  with open(os.path.join(ROOT, 'MANIFEST.json'), 'w') as f:
    json.dump(m, f, indent=1)
    f.write('\n')
  try:
    subprocess.check_call(['python3-vt', '-c', '''
import json, jsonschema
jsonschema.validate(json.load(open("%s/MANIFEST.json")), json.load(open("/root/.vp/MANIFEST.schema.json")))
print("MANIFEST.json valid")''' % ROOT])
  except Exception as e:
    print('validation skipped/failed:', e)


if __name__ == '__main__':
  main()
