#!/usr/bin/env python3
"""Re-runs every stored seeded change (/verif/seeded/*/) against the current checks and
refreshes meta.json ("detected_by").  Sensitivity regression test for the machinery:
    python3 tools/recheck_seeded.py [name-prefix ...]
"""
import glob, json, os, re, subprocess, sys
ROOT = '/verif'
only = sys.argv[1:]
rows = []
for d in sorted(glob.glob(ROOT + '/seeded/*/')):
  name = os.path.basename(d.rstrip('/'))
  if name.startswith('_'):
    continue            # _brief/: the instructions the sub-agents were given
  if only and not any(name.startswith(o) for o in only):
    continue
  meta = json.load(open(d + 'meta.json'))
  pid = meta['property']

  def run(prop):
    out = subprocess.run([ROOT + '/tools/eval_mutant.sh', prop, d + 'patch.diff', d + 'demo.py'],
                         capture_output=True, text=True).stdout
    m = re.search(r'RESULT (\S+) diff=\S+ tests=\[(.*?)\] demo_base=(\d+) demo_mut=(\d+) check_rc=(\d+)(.*)', out)
    if not m:
      return None
    return {'tests': m.group(2), 'demo_base': int(m.group(3)), 'demo_mut': int(m.group(4)),
            'rc': int(m.group(5)), 'sigs': re.findall(r'sig=(\S+)', m.group(6))}
  r = run(pid)
  if r is None:
    print(name, 'NO RESULT'); continue
  meta['confirmed'] = {'test_suite_with_change': r['tests'], 'demo_exit_unchanged_tree': r['demo_base'],
                       'demo_exit_with_change': r['demo_mut'],
                       'how': 'tools/eval_mutant.sh: scratch worktree of /repo HEAD, git apply, baseline pytest command, '
                              'demo with PYTHONPATH=<tree>/lib, then VERIF_REPO=<tree> ./check %s (quick tier)' % pid}
  meta['detected_by'] = {'check': './check %s --tier quick' % pid, 'exit_code': r['rc'], 'violation_signatures': r['sigs']}
  status = 'own' if r['rc'] == 1 else 'MISSED-own'
  other = meta.get('detected_by_other_property')
  if r['rc'] != 1 and other:
    op = other['check'].split()[1]
    r2 = run(op)
    if r2:
      other['exit_code'] = r2['rc']; other['violation_signatures'] = r2['sigs']
      status += ' other(%s)=%s' % (op, 'caught' if r2['rc'] == 1 else 'MISSED')
  json.dump(meta, open(d + 'meta.json', 'w'), indent=1)
  ok_tests = r['tests'].startswith('2 failed, 179 passed')
  print(name, status, 'tests_ok=%s demo=%d/%d' % (ok_tests, r['demo_base'], r['demo_mut']), ' '.join(r['sigs'])[:120], flush=True)
  rows.append((name, status))
print('total', len(rows), 'own', sum(1 for r in rows if r[1] == 'own'), 'missed-own', sum(1 for r in rows if r[1] != 'own'))
