#!/venv/bin/python
"""tools/find_seed.py <Cnn> <tier> <seed> [base_seed]: locate (group, run) of a run seed
and re-execute that run alone (prints its result summary)."""
import os, sys, json, time
if os.environ.get('PYTHONHASHSEED') != '0':
  os.environ['PYTHONHASHSEED'] = '0'; os.execv(sys.executable, [sys.executable] + sys.argv)
sys.path.insert(0, '/verif')
from sim import runner, cli
from sim.core import derive_seed, stream
pid, tier, want = sys.argv[1], sys.argv[2], int(sys.argv[3])
base = int(sys.argv[4]) if len(sys.argv) > 4 else 20261002
mod = cli.load_prop(pid)
groups, rpg, _ = getattr(mod, tier.upper())
for gi in range(groups):
  for ri in range(rpg):
    if derive_seed(base, mod.PROP, tier, 'run', gi, ri) == want:
      print('group', gi, 'run', ri)
      cfg_seed = derive_seed(base, mod.PROP, tier, 'cfg', gi)
      cfg = mod.gen_config(stream(cfg_seed, 'config'), tier)
      runner.simboot_instance_split(stream(cfg_seed, 'instance'), cfg)
      plan = runner.normal_form(mod.gen_plan(stream(want, 'plan'), cfg, tier))
      json.dump({'cfg': cfg, 'plan': plan}, open('/tmp/found_%s.json' % want, 'w'), default=lambda o: o.hex() if isinstance(o, bytes) else repr(o))
      w = mod.boot(cfg)
      t0 = time.time()
      res = runner.run_child(w, mod, plan, {'seed': derive_seed(want, 'sched'), 'p_preempt': plan.get('p_preempt', 0.0),
                                            'p_tie': plan.get('p_tie', 0.5), 'pct_points': plan.get('pct_points')},
                             timeout=float(os.environ.get('T', '30')))
      print('wall %.1fs' % (time.time() - t0), {k: res.get(k) for k in ('harness_error', 'end', 'nevents', 'steps')},
            [v['sig'] for v in res.get('violations', [])])
      sys.exit(0)
print('not found')
